"""Driver for C19 (Bandit.tla): executes operation scripts -- and the real `train_bandits` loop -- on real
NeuralUCB / NeuralTS agents and records, after every operation, the confidence matrix of every slot.

Actor kinds
  lin / linb   LinFeat below: the whole network is one linear output layer over the first k context
               coordinates (without / with bias).  The gradient feature of an arm is then its integer
               context (plus a 1 for the bias), every matrix is an exact rational -> Bandit_Trace (exact mode)
  mlp          a tiny EvolvableMLP passed as `actor_network` (context size from opts["nobs"])
  vnet         a ValueNetwork instance passed as `actor_network`
  default      the agent's own ValueNetwork built from `net_config` (zoo.make_agent, vector contexts)
  plain        net_config=None (the library's default encoder / head / latent size)
  custom       net_config with a custom encoder, a two-layer head with layer norm + Tanh output activation, latent_dim 6
  deep         encoder / head at their maximum number of layers (add_layer falls back to add_node)
  simba        net_config = {"simba": True, ...}
  image        image contexts (3,16,16) -> CNN encoder; opts: uint8 contexts, normalize_images
  dict / tuple / discrete   non-flat context spaces                             -> Banditx_Trace (inexact mode)

Operations of a script (tuples; optional trailing fields may be omitted)
  ("create", s, k[, lamb])                   new agent in slot s (k: size of the linear actors); own lambda (heterogeneous members)
  ("decide", s, cseed, mask[, var[, train]]) get_action(context, action_mask); contexts: float32 / float64 ndarray / torch tensor by cseed % 3; mask: None | 0/1 list | "ones" | "single" |
                                             "notop" (forbids the arm with the best score the driver computes);
                                             var: "int" | "bool" | "float" | "col" (dtype / shape (arms,1) of the ndarray);
                                             train: None | True | False -> set_training_mode before the call
  ("learn", s, b)   ("test", s, n)           learn step on batch b / agent.test(env, max_steps=n) (evaluation run)
  ("mutate", s, kind[, via])                 kind: none | arch | archl | arch#i / arch@name (i-th / named architecture method of the
                                             actor, forced through the Mutations object's random generator) | param | act | hp;
                                             via: "pop" Mutations.mutation([agent]) | "pre" (pre_training_mut=True) |
                                             "direct" (the public method: architecture_mutate / parameter_mutation / ...)
  ("clone", a, c[, idx])                     idx: "given" clone(index=..) | "none" clone()
  ("save", a, f)  ("loadnew", f, c)  ("loadinto", f, a)
Train jobs run agilerl.training.train_bandits.train_bandits (real ReplayBuffer, Sampler, TournamentSelection, Mutations,
BanditEnv / an integer-context environment) with the agents' classes wrapped driver-side (get_action, learn, test, clone,
save_checkpoint, Mutations.mutation) so that every operation the loop performs becomes an event of the trace; clones get
new slots.

Nothing of the code under test is stubbed.  The gradient features are recomputed by the driver from the
agent's *network* (torch.autograd.grad w.r.t. the parameters of actor.get_output_dense(), divided by
sqrt(out_features) as the algorithm defines its feature) before get_action is called; the chosen arm is
the value get_action returns.
"""
from __future__ import annotations

import json
import os
import random
import shutil
import tempfile
import traceback
from fractions import Fraction

import numpy as np
import torch
import torch.nn as nn
from gymnasium import spaces

from agilerl.modules.base import EvolvableModule, MutationType, mutation

from .. import zoo
from .evo import KIND_ARGS

NIN = 3            # default context size of the linear actors
BIG = 10 ** 9
NSLOTS = 12        # every trace is padded to this number of slots (train jobs allocate a new slot per clone)
NFILES = 4
EXACT = ("lin", "linb")
BOX_FAMILIES = ("lin", "linb", "mlp", "vnet", "default", "plain", "custom", "deep", "simba", "image")     # agent.test needs ndarray contexts


class LinFeat(EvolvableModule):
    """f(x) = w . x[:k] (+ b).  Architecture mutations change k, so the output layer (= the whole network)
    changes its number of parameters."""

    def __init__(self, num_inputs: int, k: int, bias: bool = False, activation: str = "ReLU", device: str = "cpu"):
        super().__init__(device)
        self.num_inputs, self.k, self.bias = num_inputs, k, bias
        self._activation = activation
        self.out = nn.Linear(k, 1, bias=bias)

    @property
    def activation(self):
        return self._activation

    @activation.setter
    def activation(self, a):
        self._activation = a

    def change_activation(self, activation: str, output: bool = False) -> None:
        self._activation = activation      # a linear map has no hidden activation

    def init_weights_gaussian(self, std_coeff: float = 4, output_coeff: float = 4) -> None:
        EvolvableModule.init_weights_gaussian(self.out, std_coeff=output_coeff)

    def forward(self, x):
        if not isinstance(x, torch.Tensor):
            x = torch.tensor(x, dtype=torch.float32)
        if x.ndim == 1:
            x = x.unsqueeze(0)
        return self.out(x[:, : self.k])

    def get_output_dense(self):
        return self.out

    @mutation(MutationType.NODE)
    def add_node(self):
        if self.k < self.num_inputs - (1 if self.bias else 0):
            self.k += 1

    @mutation(MutationType.NODE)
    def remove_node(self):
        if self.k > 1:
            self.k -= 1

    def recreate_network(self):
        new = nn.Linear(self.k, 1, bias=self.bias)
        self.out = EvolvableModule.preserve_parameters(old_net=self.out, new_net=new)


def _hp(algo: str, opts: dict):
    from agilerl.algorithms.core.registry import HyperparameterConfig, RLParameter
    if opts.get("lam_hp"):
        # lambda (and gamma) listed among the mutable hyper-parameters; factors 2 / 0.5 keep lambda an exact small rational
        return HyperparameterConfig(lamb=RLParameter(min=0.5, max=4.0, shrink_factor=0.5, grow_factor=2.0),
                                    gamma=RLParameter(min=0.25, max=4.0, shrink_factor=0.5, grow_factor=2.0))
    return zoo.hp_config(algo)


def obs_space_of(actor: str, opts: dict):
    if actor in EXACT:
        return spaces.Box(-3.0, 3.0, (int(opts.get("nin", NIN)),), dtype=np.float32)
    if actor in ("mlp", "vnet", "plain", "custom", "simba"):
        return spaces.Box(-1.0, 1.0, (int(opts.get("nobs", 4)),), dtype=np.float32)
    if actor == "image":
        if opts.get("uint8"):
            return spaces.Box(0, 255, (3, 16, 16), dtype=np.uint8)
        return spaces.Box(0.0, 1.0, (3, 16, 16), dtype=np.float32)
    if actor in ("dict", "tuple", "discrete"):
        return zoo.obs_space(actor)
    if actor == "box2d":
        return spaces.Box(-1.0, 1.0, (2, 3), dtype=np.float32)
    return zoo.obs_space("vector")            # default / deep


def agent_spec(algo: str, actor: str, lamb, gamma, k: int = 2, arms: int = 3, opts: dict = None):
    """(class, observation space, constructor keyword arguments without `index`)"""
    opts = opts or {}
    if algo == "NeuralUCB":
        from agilerl.algorithms.neural_ucb_bandit import NeuralUCB as cls
    else:
        from agilerl.algorithms.neural_ts_bandit import NeuralTS as cls
    osp = obs_space_of(actor, opts)
    kw = dict(hp_config=_hp(algo, opts), lamb=lamb, gamma=gamma, batch_size=int(opts.get("batch_size", 8)),
              lr=float(opts.get("lr", 1e-3)))
    for name in ("reg", "learn_step", "normalize_images"):
        if name in opts:
            kw[name] = opts[name]
    if actor in EXACT:
        nin = int(opts.get("nin", NIN))
        kw["actor_network"] = LinFeat(nin, min(k, nin - (1 if actor == "linb" else 0)), bias=(actor == "linb"))
    elif actor == "mlp":
        from agilerl.modules.mlp import EvolvableMLP
        kw["actor_network"] = EvolvableMLP(num_inputs=int(osp.shape[0]), num_outputs=1, hidden_size=[8], min_mlp_nodes=2, max_mlp_nodes=40,
                                           layer_norm=False)
    elif actor == "vnet":
        from agilerl.networks.value_networks import ValueNetwork
        kw["actor_network"] = ValueNetwork(osp, encoder_config={"hidden_size": [8], "min_mlp_nodes": 2, "layer_norm": False},
                                           head_config={"hidden_size": [6], "min_mlp_nodes": 2}, latent_dim=8)
    elif actor == "plain":
        kw["net_config"] = None
    elif actor == "custom":
        kw["net_config"] = {"encoder_config": {"hidden_size": [8], "min_mlp_nodes": 2, "activation": "ELU"},
                            "head_config": {"hidden_size": [8, 12], "min_mlp_nodes": 2, "layer_norm": True, "output_activation": "Tanh",
                                            "activation": "GELU", "output_vanish": False},
                            "latent_dim": 6, "min_latent_dim": 2, "max_latent_dim": 12}
    elif actor == "simba":
        kw["net_config"] = {"simba": True, "encoder_config": {"hidden_size": 16, "num_blocks": 1}, "head_config": {"hidden_size": [16]}}
    elif actor in ("image", "dict", "tuple", "discrete", "deep"):
        kw["net_config"] = zoo.net_config(actor)
    elif actor == "box2d":
        kw["net_config"] = zoo.net_config("vector")
    elif actor == "default":
        kw["net_config"] = zoo.net_config("vector")
    else:
        raise ValueError(actor)
    return cls, osp, kw


def make_agent(algo: str, actor: str, lamb, gamma, seed: int, index: int, k: int = 2, arms: int = 3, opts: dict = None):
    zoo.seed_all(seed)
    cls, osp, kw = agent_spec(algo, actor, lamb, gamma, k, arms, opts)
    return cls(osp, spaces.Discrete(arms), index=index, **kw)


def make_population(algo: str, actor: str, lamb, gamma, seed: int, size: int, k: int = 2, arms: int = 3, opts: dict = None):
    """The population as agilerl.utils.utils.create_population builds it: one net_config dict / one actor_network object for all members."""
    from agilerl.utils.utils import create_population
    zoo.seed_all(seed)
    cls, osp, kw = agent_spec(algo, actor, lamb, gamma, k, arms, opts)
    hp = {"GAMMA": kw["gamma"], "LAMBDA": kw["lamb"], "BATCH_SIZE": kw["batch_size"], "LR": kw["lr"]}
    if "reg" in kw:
        hp["REG"] = kw["reg"]
    if "learn_step" in kw:
        hp["LEARN_STEP"] = kw["learn_step"]
    return create_population(algo, osp, spaces.Discrete(arms), kw.get("net_config"), hp, hp_config=kw["hp_config"],
                             actor_network=kw.get("actor_network"), population_size=size)


def out_layer(agent):
    return agent.actor.get_output_dense()


def layer_numel(agent) -> int:
    return int(sum(p.numel() for p in out_layer(agent).parameters() if p.requires_grad))


def arm_features(agent, obs, with_mu: bool = False):
    """Gradient feature of every arm, (arms, numel of the output layer), float64; leaves .grad fields alone."""
    layer = out_layer(agent)
    params = [p for p in layer.parameters() if p.requires_grad]
    x = agent.preprocess_observation(obs)
    mu = agent.actor(x)
    feats = []
    for k in range(mu.shape[0]):
        gr = torch.autograd.grad(mu[k].sum(), params, retain_graph=True, allow_unused=True)
        v = torch.cat([(g if g is not None else torch.zeros_like(p)).flatten() for g, p in zip(gr, params)])
        feats.append((v / np.sqrt(layer.weight.size(0))).detach().double().numpy())
    F = np.stack(feats)
    if with_mu:
        return F, mu.detach().double().numpy().reshape(-1)
    return F


def lam_fraction(x: float) -> Fraction:
    return Fraction(float(x)).limit_denominator(64)


def snapshot(agent):
    if agent is None:
        return {"nil": True}
    s = agent.sigma_inv
    sq = bool(s.ndim == 2 and s.shape[0] == s.shape[1])
    return {"nil": False, "layer": layer_numel(agent), "dim": int(s.shape[0]), "sq": sq, "numel": int(agent.numel),
            "exp_is_out": agent.exp_layer is out_layer(agent), "S": s.detach().cpu().double().numpy().copy(),
            "lamf": float(agent.lamb)}


def _mat(agent):
    return agent.sigma_inv.detach().cpu().double().numpy().copy()


def sample_space(space, n: int, rng: random.Random):
    """n contexts of `space` (one per arm), deterministic from rng."""
    if isinstance(space, spaces.Box):
        if np.issubdtype(space.dtype, np.integer):
            return np.array([rng.randint(0, 255) for _ in range(n * int(np.prod(space.shape)))], dtype=space.dtype).reshape((n, *space.shape))
        lo, hi = float(np.min(space.low)), float(np.max(space.high))
        return np.array([rng.uniform(lo, hi) for _ in range(n * int(np.prod(space.shape)))], dtype=np.float32).reshape((n, *space.shape))
    if isinstance(space, spaces.Discrete):
        return np.array([rng.randrange(int(space.n)) for _ in range(n)])
    if isinstance(space, spaces.Dict):
        return {k: sample_space(s, n, rng) for k, s in space.spaces.items()}
    if isinstance(space, spaces.Tuple):
        return tuple(sample_space(s, n, rng) for s in space.spaces)
    raise ValueError(space)


def contexts(rng, arms: int, layer: int, actor: str, agent):
    """Integer contexts for the linear actors (small enough for 32-bit exact arithmetic in TLC), samples of the space otherwise."""
    if actor in EXACT:
        nin = int(agent.observation_space.shape[0])
        vals = [-1, 0, 1, 2] if layer <= 2 else [-1, 0, 1]
        return np.array([[rng.choice(vals) for _ in range(nin)] for _ in range(arms)], dtype=np.float32)
    return sample_space(agent.observation_space, arms, rng)


class ProbeEnv:
    """Bandit environment with the interface train_bandits / agent.test use (reset() -> contexts, step(arm) -> contexts, reward)."""

    def __init__(self, seed: int, arms: int, gen):
        self.rng, self.arms, self.gen = random.Random(seed), arms, gen

    def reset(self):
        return self.gen(self.rng)

    def step(self, k):
        return self.gen(self.rng), float(self.rng.randint(0, 1))


class ForcedRng:
    """The Mutations object's numpy Generator, except that a choice among architecture-method names returns `want`
    (an input of the code under test: which architecture method the random generator picks)."""

    def __init__(self, rng, want):
        self._rng, self._want = rng, want

    def choice(self, a, *args, **kw):
        try:
            opts = list(a)
        except TypeError:
            opts = []
        if opts and all(isinstance(x, str) for x in opts) and self._want in opts:
            return np.array([self._want])
        return self._rng.choice(a, *args, **kw)

    def __getattr__(self, name):
        return getattr(self._rng, name)


def mut_kind(agent, hint=None) -> str:
    """Kind of the mutation that was applied, from agent.mut."""
    m = str(agent.mut)
    if m == "None":
        return "none"
    if m in ("param", "act"):
        return m
    try:
        if m in list(agent.registry.hp_config.config.keys()):
            return "hp"
    except Exception:
        pass
    return "arch"


class Runner:
    def __init__(self, algo, actor, lamb, gamma, nslots=NSLOTS, nfiles=NFILES, seed=0, arms=3, opts=None):
        self.algo, self.actor, self.lamb, self.gamma = algo, actor, lamb, gamma
        self.nslots, self.nfiles, self.seed, self.arms = nslots, nfiles, seed, arms
        self.opts = dict(opts or {})
        self.slots = [None] * (nslots + 1)
        self.saved = {}                   # file -> matrix at save time
        self.paths = {}                   # file -> path
        self.ev = []
        self.dir = tempfile.mkdtemp(prefix="bandit-")
        self.mutations = {}
        self.methods = {}
        self.depth = 0

    def close(self):
        shutil.rmtree(self.dir, ignore_errors=True)

    # ---------------------------------------------------------------------------------------- helpers
    def mutations_for(self, kind):
        from agilerl.hpo.mutation import Mutations
        if kind not in self.mutations:
            self.mutations[kind] = Mutations(mutation_sd=0.1, mutate_elite=True, rand_seed=self.seed + 11, **KIND_ARGS[kind])
        return self.mutations[kind]

    def path(self, f):
        return self.paths.setdefault(f, os.path.join(self.dir, f"f{f}.pt"))

    def new_event(self, op):
        return {"op": op, "exc": "", "a": 0, "c": 0, "f": 0, "kind": "none"}

    def snaps(self):
        return [snapshot(self.slots[s]) for s in range(1, self.nslots + 1)]

    def emit(self, e, snaps=None):
        e["snaps"] = snaps if snaps is not None else self.snaps()
        self.ev.append(e)

    def fail(self, e, ex, where=""):
        e["exc"] = f"{where}{type(ex).__name__}: {ex}"[:300]
        e["tb"] = traceback.format_exc()[-800:]
        e["snaps"] = [snapshot(None)] * self.nslots
        self.ev.append(e)

    def slot_of(self, agent):
        for s in range(1, self.nslots + 1):
            if self.slots[s] is agent:
                return s
        return self.alloc(agent)

    def alloc(self, agent):
        for s in range(1, self.nslots + 1):
            if self.slots[s] is None:
                self.slots[s] = agent
                return s
        raise RuntimeError("harness: out of slots")

    def cls(self):
        return type(next(x for x in self.slots if x is not None))

    def resolve_mask(self, ag, F, mu, mask, var):
        arms = F.shape[0]
        if mask is None:
            return None, None
        if isinstance(mask, str):
            if mask == "ones":
                m = [1] * arms
            elif mask == "single":
                m = [0] * arms
                m[self.seed % arms] = 1
            elif mask == "notop":
                if arms < 2:
                    return None, None
                S = ag.sigma_inv.detach().double().numpy()
                if S.ndim == 2 and S.shape[0] == S.shape[1] == F.shape[1]:
                    score = mu + float(ag.gamma) * np.sqrt(np.maximum(np.einsum("ai,ij,aj->a", F, S, F), 0.0))
                else:
                    score = mu
                m = [1] * arms
                m[int(np.argmax(score))] = 0
            else:
                raise ValueError(mask)
        else:
            m = [int(x) for x in mask][:arms] + [1] * max(0, arms - len(mask))
            if not any(m):
                m[0] = 1
        dt = {"int": np.int64, "bool": np.bool_, "float": np.float32, "col": np.int64, None: np.int64}[var]
        am = np.array(m, dtype=dt)
        if var == "col":
            am = am.reshape(-1, 1)
        return m, am

    def decide(self, ag, obs, mask, var, e, call):
        """Shared by scripted decisions and the wrapped get_action of train jobs: features first, then the real call."""
        F, mu = arm_features(ag, obs, with_mu=True)
        e["feats"] = F
        e["Spre"] = _mat(ag)
        m, am = mask if isinstance(mask, tuple) else self.resolve_mask(ag, F, mu, mask, var)
        e["mask"] = m
        e["arm"] = int(call(am))

    # ---------------------------------------------------------------------------------------- scripted operations
    def apply(self, op, e):
        n = len(self.ev)
        if op[0] == "create":
            s, k = op[1], op[2]
            lamb = op[3] if len(op) > 3 and op[3] is not None else self.lamb
            e["a"] = s
            e["lam0"] = lamb
            self.slots[s] = make_agent(self.algo, self.actor, lamb, self.gamma, seed=self.seed * 7 + n, index=s - 1, k=k, arms=self.arms,
                                       opts=self.opts)
        elif op[0] == "decide":
            s, cseed, mask = op[1], op[2], op[3]
            var = op[4] if len(op) > 4 else None
            train = op[5] if len(op) > 5 else None
            e["a"] = s
            ag = self.slots[s]
            rng = random.Random(cseed)
            obs = contexts(rng, self.arms, layer_numel(ag), self.actor, ag)
            if self.actor in EXACT:
                e["obs"] = obs.tolist()
            if isinstance(obs, np.ndarray) and obs.dtype == np.float32:
                # container / dtype of the contexts: float32 ndarray, float64 ndarray (what BanditEnv yields), torch tensor
                e["ovar"] = ("f32", "f64", "torch")[cseed % 3]
                obs = obs if cseed % 3 == 0 else obs.astype(np.float64) if cseed % 3 == 1 else torch.from_numpy(obs.copy())
            if train is not None:
                ag.set_training_mode(bool(train))
            zoo_seed = self.seed * 13 + n

            def call(am):
                zoo.seed_all(zoo_seed)
                return ag.get_action(obs, action_mask=am)
            self.decide(ag, obs, mask, var, e, call)
        elif op[0] == "learn":
            _, s, b = op
            e["a"] = s
            e["src"] = _mat(self.slots[s])
            ag = self.slots[s]
            if isinstance(ag.observation_space, spaces.Box):
                zoo.learn(ag, self.algo, b)
            else:
                # non-flat context spaces: learn() feeds its batch to the network as it is, so the batch holds preprocessed contexts
                zoo.seed_all(7000 + b)
                B = int(ag.batch_size)
                rr = random.Random(1000 + b)
                obs = ag.preprocess_observation(sample_space(ag.observation_space, B, rr))
                ag.learn({"obs": obs, "reward": torch.tensor([[float(rr.randint(-1, 1))] for _ in range(B)])})
        elif op[0] == "test":
            _, s, nsteps = op
            e["a"] = s
            ag = self.slots[s]
            e["src"] = _mat(ag)
            lay, actor, arms = layer_numel(ag), self.actor, self.arms
            env = ProbeEnv(self.seed * 17 + n, arms, lambda r: contexts(r, arms, lay, actor, ag))
            zoo.seed_all(self.seed * 19 + n)
            ag.test(env, swap_channels=False, max_steps=int(nsteps), loop=1 + (n % 2))
        elif op[0] == "mutate":
            s, kind = op[1], op[2]
            via = op[3] if len(op) > 3 else "pop"
            ag = self.slots[s]
            base = "arch" if kind.startswith("arch") else kind
            e.update({"a": s, "kind": base, "via": via})
            e["src"] = _mat(ag)
            zoo.seed_all(self.seed * 31 + n)
            m = self.mutations_for("arch" if kind.startswith(("arch#", "arch@")) else kind)
            real_rng = m.rng
            if kind.startswith("arch#") or kind.startswith("arch@"):
                names = sorted(ag.actor.mutation_methods)
                if kind.startswith("arch@") and kind[5:] in names:
                    want = kind[5:]
                else:           # a method that is not available for this network right now: any other one, deterministically
                    i = int(kind.split("#")[1]) if kind.startswith("arch#") else sum(map(ord, kind))
                    want = names[i % len(names)]
                e["want"] = want
                m.rng = ForcedRng(real_rng, want)
            try:
                if via == "direct":
                    fn = {"arch": m.architecture_mutate, "param": m.parameter_mutation, "act": m.activation_mutation,
                          "hp": m.rl_hyperparam_mutation, "none": m.no_mutation}[base]
                    out = [fn(ag)]
                else:
                    out = m.mutation([ag], pre_training_mut=(via == "pre"))
            finally:
                m.rng = real_rng
            assert len(out) == 1
            self.slots[s] = out[0]
            e["mut"] = str(out[0].mut)
        elif op[0] == "clone":
            a, c = op[1], op[2]
            idx = op[3] if len(op) > 3 else "given"
            e.update({"a": a, "c": c})
            e["src"] = _mat(self.slots[a])
            self.slots[c] = self.slots[a].clone(index=c - 1) if idx == "given" else self.slots[a].clone()
        elif op[0] == "save":
            _, a, f = op
            e.update({"a": a, "f": f})
            e["src"] = _mat(self.slots[a])
            self.slots[a].save_checkpoint(self.path(f))
            self.saved[f] = _mat(self.slots[a])
        elif op[0] == "loadnew":
            _, f, c = op
            e.update({"f": f, "c": c, "a": c})
            e["src"] = self.saved[f]
            self.slots[c] = self.cls().load(self.path(f))
        elif op[0] == "loadinto":
            _, f, a = op
            e.update({"f": f, "a": a})
            e["src"] = self.saved[f]
            self.slots[a].load_checkpoint(self.path(f))
        else:
            raise ValueError(op)

    def run(self, ops):
        for op in ops:
            e = self.new_event(op[0])
            try:
                self.apply(op, e)
            except Exception as ex:
                self.fail(e, ex)
                break
            try:
                self.emit(e)
            except Exception as ex:
                self.fail(e, ex, "snapshot: ")
                break
        return self.result(ops)

    def result(self, ops):
        return {"algo": self.algo, "actor": self.actor, "lamb": self.lamb, "gamma": self.gamma, "nslots": self.nslots,
                "nfiles": self.nfiles, "seed": self.seed, "arms": self.arms, "opts": self.opts, "ops": [list(o) for o in ops], "ev": self.ev}

    # ---------------------------------------------------------------------------------------- the real training loop
    def run_train(self, tp):
        """train_bandits on a population of tp["pop"] agents; every operation of the loop becomes an event."""
        from agilerl.components.replay_buffer import ReplayBuffer
        from agilerl.hpo.mutation import Mutations
        from agilerl.hpo.tournament import TournamentSelection
        from agilerl.training.train_bandits import train_bandits

        R = self
        arms, actor = self.arms, self.actor
        pop = []
        made = None
        for i in range(tp["pop"]):
            e = self.new_event("create")
            try:
                if tp.get("create") == "create_population":
                    if made is None:
                        made = make_population(self.algo, actor, self.lamb, self.gamma, self.seed * 7, tp["pop"], k=tp.get("k", 2), arms=arms, opts=self.opts)
                    ag = made[i]
                else:
                    ag = make_agent(self.algo, actor, self.lamb, self.gamma, seed=self.seed * 7 + i, index=i, k=tp.get("k", 2), arms=arms, opts=self.opts)
                s = self.alloc(ag)
                e["a"] = s
                e["lam0"] = self.lamb
                self.emit(e)
                pop.append(ag)
            except Exception as ex:
                self.fail(e, ex)
                return self.result([["train", tp]])
        cls = type(pop[0])
        if actor in EXACT:
            nin = int(pop[0].observation_space.shape[0])
            env = ProbeEnv(self.seed * 17 + 3, arms, lambda r: np.array([[r.choice([-1, 0, 1]) for _ in range(nin)] for _ in range(arms)], dtype=np.float32))
        else:
            import pandas as pd
            from agilerl.wrappers.learning import BanditEnv
            rs = np.random.RandomState(self.seed + 5)
            nfeat = int(pop[0].observation_space.shape[0]) // arms
            feats = pd.DataFrame(rs.uniform(-1, 1, size=(12, nfeat)))
            targets = pd.DataFrame(np.arange(12) % arms)
            env = BanditEnv(feats, targets)
        orig = {n: getattr(cls, n) for n in ("get_action", "learn", "test", "clone", "save_checkpoint")}

        class Abort(Exception):
            pass

        def guarded(e, fn):
            try:
                return fn()
            except Abort:
                raise
            except Exception as ex:
                R.fail(e, ex)
                raise Abort() from ex

        def w_get_action(agent, obs, action_mask=None):
            if R.depth:
                return orig["get_action"](agent, obs, action_mask)
            e = R.new_event("decide")
            e["a"] = R.slot_of(agent)
            if actor in EXACT:
                e["obs"] = np.asarray(obs).tolist()
            out = {}

            def call(am):
                out["arm"] = orig["get_action"](agent, obs, action_mask)
                return out["arm"]
            guarded(e, lambda: R.decide(agent, obs, (None, None), None, e, call))
            R.emit(e)
            return out["arm"]

        def simple(opname, name):
            def w(agent, *a, **kw):
                if R.depth:
                    return orig[name](agent, *a, **kw)
                e = R.new_event(opname)
                e["a"] = R.slot_of(agent)
                e["src"] = _mat(agent)
                R.depth += 1
                try:
                    r = guarded(e, lambda: orig[name](agent, *a, **kw))
                finally:
                    R.depth -= 1
                R.emit(e)
                return r
            return w

        def w_clone(agent, *a, **kw):
            if R.depth:
                return orig["clone"](agent, *a, **kw)
            e = R.new_event("clone")
            e["a"] = R.slot_of(agent)
            e["src"] = _mat(agent)
            R.depth += 1
            try:
                new = guarded(e, lambda: orig["clone"](agent, *a, **kw))
            finally:
                R.depth -= 1
            e["c"] = guarded(e, lambda: R.alloc(new))
            R.emit(e)
            return new

        def w_save(agent, path):
            e = R.new_event("save")
            e["a"] = R.slot_of(agent)
            f = len(R.paths) + 1
            if f > R.nfiles:                      # more checkpoints than the trace can name: not recorded
                return orig["save_checkpoint"](agent, path)
            e["f"] = f
            e["src"] = _mat(agent)
            guarded(e, lambda: orig["save_checkpoint"](agent, path))
            R.paths[f] = path
            R.saved[f] = _mat(agent)
            R.emit(e)

        mut = Mutations(no_mutation=tp["probs"][0], architecture=tp["probs"][1], new_layer_prob=0.5, parameters=tp["probs"][2],
                        activation=tp["probs"][3], rl_hp=tp["probs"][4], mutation_sd=0.1, mutate_elite=tp["mutate_elite"],
                        rand_seed=self.seed + 11)
        orig_mutation = mut.mutation

        def w_mutation(population, pre_training_mut=False):
            slots = [R.slot_of(a) for a in population]
            before = R.snaps()
            srcs = [_mat(a) for a in population]
            e0 = R.new_event("mutate")
            e0["a"] = slots[0] if slots else 0
            R.depth += 1
            try:
                out = guarded(e0, lambda: orig_mutation(population, pre_training_mut=pre_training_mut))
            finally:
                R.depth -= 1
            for s, new in zip(slots, out):
                R.slots[s] = new
            after = R.snaps()
            done = set()
            for s, src, new in zip(slots, srcs, out):
                done.add(s)
                e = R.new_event("mutate")
                e.update({"a": s, "kind": mut_kind(new), "via": "pre" if pre_training_mut else "pop", "src": src, "mut": str(new.mut)})
                # members mutated later in the same call still show their state before the call
                R.emit(e, [after[i] if (i + 1) in done or (i + 1) not in slots else before[i] for i in range(R.nslots)])
            return out

        mut.mutation = w_mutation
        tour = TournamentSelection(tournament_size=tp["tsize"], elitism=tp["elitism"], population_size=tp["pop"], eval_loop=tp["eval_loop"])
        memory = ReplayBuffer(max_size=64, device="cpu")
        final = pop
        try:
            cls.get_action, cls.learn, cls.test = w_get_action, simple("learn", "learn"), simple("test", "test")
            cls.clone, cls.save_checkpoint = w_clone, w_save
            zoo.seed_all(self.seed * 23 + 1)
            import contextlib
            import io
            try:
                with contextlib.redirect_stdout(io.StringIO()), contextlib.redirect_stderr(io.StringIO()):
                    final, _ = train_bandits(env, "probe", self.algo, pop, memory, max_steps=tp["gens"] * tp["episode_steps"],
                                             episode_steps=tp["episode_steps"], evo_steps=tp["episode_steps"], eval_steps=tp["eval_steps"],
                                             eval_loop=tp["eval_loop"], tournament=tour, mutation=mut,
                                             save_elite=bool(tp.get("save_elite")), elite_path=os.path.join(self.dir, "elite"),
                                             checkpoint=(tp["episode_steps"] if tp["checkpoint"] else None),
                                             checkpoint_path=os.path.join(self.dir, "ckpt"), overwrite_checkpoints=False, verbose=False, wb=False)
                # every member of the returned population takes a decision; a checkpoint written by the loop is loaded and decides
                for ag in final:
                    ag.get_action(env.reset())
            except Abort:
                return self.result([["train", tp]])
            except Exception as ex:
                e = self.new_event("train")
                self.fail(e, ex, "train_bandits: ")
                return self.result([["train", tp]])
        finally:
            for n, f in orig.items():
                setattr(cls, n, f)
        if self.paths:
            e = self.new_event("loadnew")
            try:
                f = sorted(self.paths)[-1]
                e.update({"f": f, "src": self.saved[f]})
                new = cls.load(self.paths[f])
                c = self.alloc(new)
                e.update({"c": c, "a": c})
                self.emit(e)
                e = self.new_event("decide")
                e["a"] = c
                obs = env.reset()
                if actor in EXACT:
                    e["obs"] = np.asarray(obs).tolist()
                zoo.seed_all(self.seed * 29)
                self.decide(new, obs, (None, None), None, e, lambda am: new.get_action(obs))
                self.emit(e)
            except Exception as ex:
                self.fail(e, ex)
        return self.result([["train", tp]])


def run_script(algo, actor, lamb, gamma, ops, seed=0, nslots=NSLOTS, nfiles=NFILES, arms=3, opts=None):
    torch.set_num_threads(1)
    r = Runner(algo, actor, lamb, gamma, nslots, nfiles, seed, arms, opts)
    try:
        if ops and ops[0][0] == "train":
            return r.run_train(dict(ops[0][1]))
        return r.run(ops)
    finally:
        r.close()


# ------------------------------------------------------------------------------------------- projections
def init_scale(raw):
    """Scale c of the matrix c I the first agent starts from (None if it is not a positive multiple of I)."""
    e0 = raw["ev"][0]
    if e0["exc"] or e0["op"] != "create":
        return None
    S = e0["snaps"][e0["a"] - 1]["S"]
    c = float(S[0, 0])
    if S.ndim != 2 or S.shape[0] != S.shape[1] or c <= 0 or np.abs(S - c * np.eye(S.shape[0])).max() > 1e-6:
        return None
    return c


def homogeneous(raw) -> bool:
    """Every agent of the execution has the job's lambda all the time (then a `relative` trace makes sense)."""
    if raw["opts"].get("lam_hp"):
        return False
    for e in raw["ev"]:
        if e["op"] == "create" and "lam0" in e and float(e["lam0"]) != float(raw["lamb"]):
            return False
        for sn in e["snaps"]:
            if not sn["nil"] and float(sn["lamf"]) != float(raw["lamb"]):
                return False
    return True


def _micro(x: float) -> int:
    if not np.isfinite(x) or abs(x) > 1000:
        return BIG
    return int(round(x * 1e6))


def _fr(x: Fraction):
    return [x.numerator, x.denominator]


def _hdr(raw, lam: Fraction, mode: str):
    return {"algo": raw["algo"], "actor": raw["actor"], "lamb": raw["lamb"], "gamma": raw["gamma"], "lam": _fr(lam),
            "mode": mode, "kind": "exact" if raw["actor"] in EXACT else "inexact",
            "seed": raw["seed"], "arms": raw["arms"], "opts": json.dumps(raw["opts"]), "ops": json.dumps(raw["ops"])}


def _base(e, lam: Fraction, mode: str):
    t = {k: e[k] for k in ("op", "exc", "a", "c", "f", "kind")}
    if e["op"] == "create":
        t["lam0"] = _fr(lam if mode == "relative" else lam_fraction(e.get("lam0", 1.0)))
    for k in ("via", "want", "mut"):
        if k in e:
            t[k] = e[k]
    return t


def _lam_of(sn, lam: Fraction, mode: str) -> Fraction:
    return lam if mode == "relative" else lam_fraction(sn["lamf"])


def exact_trace(raw, lam: Fraction, mode: str):
    """Trace for Bandit_Trace.tla: integer features, matrices in units of 1e-6."""
    ev = []
    for e in raw["ev"]:
        t = _base(e, lam, mode)
        if e["op"] == "decide" and not e["exc"]:
            fr = np.rint(e["feats"])
            if np.abs(fr - e["feats"]).max() > 1e-9:
                raise RuntimeError(f"linear actor produced a non-integral gradient feature: {e['feats']}")
            t["feats"] = fr.astype(int).tolist()
            t["arm"] = e["arm"]
            t["obs"] = e.get("obs", [])
            t["mask"] = e["mask"] if e["mask"] is not None else []
        post = []
        for sn in e["snaps"]:
            if sn["nil"]:
                post.append({"nil": True})
            else:
                post.append({"nil": False, "layer": sn["layer"], "dim": sn["dim"], "sq": sn["sq"], "numel": sn["numel"],
                             "exp_is_out": sn["exp_is_out"], "lam": _fr(_lam_of(sn, lam, mode)),
                             "S": [[_micro(v) for v in row] for row in sn["S"]] if sn["sq"] else []})
        t["post"] = post
        if e["exc"]:
            t["tb"] = e.get("tb", "")
        ev.append(t)
    return {"cfg": _hdr(raw, lam, mode), "ev": ev}


RES_TOL = 1e-3
EQ_TOL = 1e-7


def float_trace(raw, lam: Fraction, mode: str):
    """Trace for Banditx_Trace.tla: per slot the decision history the driver used and the class of the
    residual  max | S (lam I + sum_{d in hist} g_d g_d^T) - I |  (lam: the slot's own lambda)."""
    ns = raw["nslots"]
    hist = {s: [] for s in range(1, ns + 1)}
    fhist = {}
    gvec = {}                      # decision id (event number) -> feature used
    prev = {s: None for s in range(1, ns + 1)}
    ev = []

    def lamf(sn):
        return float(lam) if mode == "relative" else float(sn["lamf"])

    def isinit(sn):
        return bool(sn["sq"] and sn["dim"] == sn["layer"] and np.abs(sn["S"] - np.eye(sn["dim"]) / lamf(sn)).max() <= 1e-6 * max(1.0, 1.0 / lamf(sn)))

    def eq(sn, M):
        return bool(M is not None and sn["sq"] and M.shape == sn["S"].shape and np.abs(sn["S"] - M).max() <= EQ_TOL)

    def residual(sn, h):
        if not sn["sq"]:
            return "bad", float("inf")
        d = sn["dim"]
        G = lamf(sn) * np.eye(d)
        for i in h:
            g = gvec[i]
            if g.shape[0] != d:
                return "bad", float("inf")
            G = G + np.outer(g, g)
        r = float(np.abs(sn["S"] @ G - np.eye(d)).max())
        return ("ok" if np.isfinite(r) and r <= RES_TOL else "bad"), r

    for l, e in enumerate(raw["ev"], start=1):
        t = _base(e, lam, mode)
        if e["exc"]:
            t["post"] = [{"nil": True}] * ns
            t["tb"] = e.get("tb", "")
            ev.append(t)
            break
        snaps = e["snaps"]
        op = e["op"]
        tgt = e["c"] if op in ("clone", "loadnew") else e["a"]
        sn = snaps[tgt - 1]
        if op == "create":
            hist[tgt] = []
        elif op == "decide":
            F = e["feats"]
            t.update({"arm": e["arm"], "narms": int(F.shape[0]), "featdim": int(F.shape[1]), "mask": e["mask"] if e["mask"] is not None else []})
            Spre = e["Spre"]
            t["bonus_ok"] = bool(Spre.ndim == 2 and Spre.shape[0] == Spre.shape[1] == F.shape[1]
                                 and all(float(g @ Spre @ g) >= -1e-9 for g in F))
            if 0 <= e["arm"] < F.shape[0]:
                gvec[l] = F[e["arm"]]
            else:
                gvec[l] = np.zeros(F.shape[1])
            hist[tgt] = hist[tgt] + [l]
        elif op in ("mutate", "clone", "loadnew", "loadinto"):
            src_hist = {"mutate": lambda: hist[e["a"]], "clone": lambda: hist[e["a"]],
                        "loadnew": lambda: fhist[e["f"]], "loadinto": lambda: fhist[e["f"]]}[op]()
            hist[tgt] = [] if isinit(sn) else list(src_hist)
        elif op == "save":
            fhist[e["f"]] = list(hist[e["a"]])
        post = []
        for s in range(1, ns + 1):
            p = snaps[s - 1]
            if p["nil"]:
                post.append({"nil": True})
                continue
            cls, r = residual(p, hist[s])
            q = {"nil": False, "layer": p["layer"], "dim": p["dim"], "sq": p["sq"], "numel": p["numel"], "exp_is_out": p["exp_is_out"],
                 "lam": _fr(_lam_of(p, lam, mode)),
                 "hist": list(hist[s]), "res": cls, "resid": (r if np.isfinite(r) else -1.0),
                 "isinit": isinit(p), "same": eq(p, prev[s]["S"]) if prev[s] is not None and not prev[s]["nil"] else False,
                 "eqsrc": eq(p, e.get("src")) if s == tgt and "src" in e else False}
            post.append(q)
        t["post"] = post
        ev.append(t)
        prev = {s: snaps[s - 1] for s in range(1, ns + 1)}
    return {"cfg": _hdr(raw, lam, mode), "ev": ev}


# ------------------------------------------------------------------------------------------- jobs
def observed_protocol(raw, c):
    """For the evidence file: what the real code did to the matrix at every non-decision operation
    (reinit = (1/lambda) I of the output layer's size, carry = the source's matrix)."""
    out = {}
    for e in raw["ev"]:
        if e["exc"] or e["op"] in ("create", "decide"):
            continue
        tgt = e["c"] if e["op"] in ("clone", "loadnew") else e["a"]
        sn = e["snaps"][tgt - 1]
        if sn["nil"] or not sn["sq"]:
            continue
        S, src = sn["S"], e.get("src")
        ini = np.abs(S - np.eye(S.shape[0]) / sn["lamf"]).max() <= 1e-6 * max(1.0, 1.0 / sn["lamf"])
        car = src is not None and src.shape == S.shape and np.abs(S - src).max() <= EQ_TOL
        key = e["op"] + (":" + e["kind"] if e["op"] == "mutate" else "") + (":" + e["via"] if e.get("via", "pop") != "pop" else "")
        if src is not None and src.shape != S.shape:
            key += ":resized"
        what = "carry=reinit" if (ini and car) else "reinit" if ini else "carry" if car else "other"
        out.setdefault(key, {}).setdefault(what, 0)
        out[key][what] += 1
    return out


def run_job(job):
    """job = (algo, actor, lamb, gamma, ops, seed, arms[, opts]) -> traces + statistics; ops = [("train", params)] runs train_bandits"""
    algo, actor, lamb, gamma, ops, seed, arms = job[:7]
    opts = job[7] if len(job) > 7 else {}
    raw = run_script(algo, actor, lamb, gamma, ops, seed=seed, arms=arms, opts=opts)
    lam = lam_fraction(lamb)
    c = init_scale(raw)
    proj = exact_trace if actor in EXACT else float_trace
    traces = [proj(raw, lam, "strict")]
    if c is not None and abs(c - 1.0 / float(lam)) > 1e-6 * max(1.0, c) and homogeneous(raw):
        # the real agent starts from c I with c != 1/lambda: additionally validate everything else relative to
        # the lambda this scale corresponds to (the strict trace is rejected at the first event)
        traces.append(proj(raw, lam_fraction(1.0 / c), "relative"))
    resized = sum(1 for i in range(1, len(raw["ev"])) for a, b in zip(raw["ev"][i - 1]["snaps"], raw["ev"][i]["snaps"])
                  if not a["nil"] and not b["nil"] and a["layer"] != b["layer"])
    stats = {}
    for e in raw["ev"]:
        if e["exc"]:
            continue
        k = e["op"]
        if k == "mutate":
            k += ":" + e["kind"] + (":" + e["via"] if e.get("via", "pop") != "pop" else "")
            if "want" in e:
                stats["archmethod:" + e["want"]] = stats.get("archmethod:" + e["want"], 0) + 1
        if k == "decide" and e.get("mask") is not None:
            k += ":masked"
        stats[k] = stats.get(k, 0) + 1
    lamch = sum(1 for i in range(1, len(raw["ev"])) for a, b in zip(raw["ev"][i - 1]["snaps"], raw["ev"][i]["snaps"])
                if not a["nil"] and not b["nil"] and a["lamf"] != b["lamf"])
    return {"kind": "exact" if actor in EXACT else "float", "traces": traces,
            "protocol": observed_protocol(raw, c), "resized": resized, "nev": len(raw["ev"]), "stats": stats, "lam_changes": lamch,
            "crashed": next((e["exc"] for e in raw["ev"] if e["exc"]), ""),
            "decisions": sum(1 for e in raw["ev"] if e["op"] == "decide" and not e["exc"])}
