"""Driver for C19 (Bandit.tla): executes operation scripts on real NeuralUCB / NeuralTS agents and records,
after every operation, the confidence matrix of every slot.

Actor kinds
  lin / linb   LinFeat below: the whole network is one linear output layer over the first k context
               coordinates (without / with bias).  The gradient feature of an arm is then its integer
               context (plus a 1 for the bias), every matrix is an exact rational -> Bandit_Trace (exact mode)
  mlp          a tiny EvolvableMLP passed as `actor_network`
  default      the agent's own default ValueNetwork (zoo.make_agent)           -> Banditx_Trace (inexact mode)

Nothing of the code under test is stubbed.  The gradient features are recomputed by the driver from the
agent's *network* (torch.autograd.grad w.r.t. the parameters of actor.get_output_dense(), divided by
sqrt(out_features) as the algorithm defines its feature) before get_action is called; the chosen arm is
the value get_action returns.
"""
from __future__ import annotations

import os
import shutil
import tempfile
from fractions import Fraction

import numpy as np
import torch
import torch.nn as nn
from gymnasium import spaces

from agilerl.modules.base import EvolvableModule, MutationType, mutation

from .. import zoo
from .evo import KIND_ARGS

NIN = 3            # context size of the linear actors
BIG = 10 ** 9


class LinFeat(EvolvableModule):
    """f(x) = w . x[:k] (+ b).  Architecture mutations change k, so the output layer (= the whole network)
    changes its number of parameters."""

    def __init__(self, num_inputs: int, k: int, bias: bool = False, activation: str = "ReLU", device: str = "cpu"):
        super().__init__(device)
        self.num_inputs, self.k, self.bias = num_inputs, k, bias
        self._activation = activation
        self.out = nn.Linear(k, 1, bias=bias)

    @property
    def activation(self):
        return self._activation

    @activation.setter
    def activation(self, a):
        self._activation = a

    def change_activation(self, activation: str, output: bool = False) -> None:
        self._activation = activation      # a linear map has no hidden activation

    def init_weights_gaussian(self, std_coeff: float = 4, output_coeff: float = 4) -> None:
        EvolvableModule.init_weights_gaussian(self.out, std_coeff=output_coeff)

    def forward(self, x):
        if not isinstance(x, torch.Tensor):
            x = torch.tensor(x, dtype=torch.float32)
        if x.ndim == 1:
            x = x.unsqueeze(0)
        return self.out(x[:, : self.k])

    def get_output_dense(self):
        return self.out

    @mutation(MutationType.NODE)
    def add_node(self):
        if self.k < self.num_inputs - (1 if self.bias else 0):
            self.k += 1

    @mutation(MutationType.NODE)
    def remove_node(self):
        if self.k > 1:
            self.k -= 1

    def recreate_network(self):
        new = nn.Linear(self.k, 1, bias=self.bias)
        self.out = EvolvableModule.preserve_parameters(old_net=self.out, new_net=new)


def make_agent(algo: str, actor: str, lamb: float, gamma: float, seed: int, index: int, k: int = 2, arms: int = 3):
    zoo.seed_all(seed)
    if actor == "default":
        return zoo.make_agent(algo, "vector", seed=seed, index=index, lamb=lamb, gamma=gamma)
    if algo == "NeuralUCB":
        from agilerl.algorithms.neural_ucb_bandit import NeuralUCB as cls
    else:
        from agilerl.algorithms.neural_ts_bandit import NeuralTS as cls
    if actor in ("lin", "linb"):
        osp = spaces.Box(-3.0, 3.0, (NIN,), dtype=np.float32)
        net = LinFeat(NIN, k, bias=(actor == "linb"))
    elif actor == "mlp":
        from agilerl.modules.mlp import EvolvableMLP
        osp = spaces.Box(-1.0, 1.0, (4,), dtype=np.float32)
        net = EvolvableMLP(num_inputs=4, num_outputs=1, hidden_size=[8], min_mlp_nodes=2, max_mlp_nodes=40, layer_norm=False)
    else:
        raise ValueError(actor)
    return cls(osp, spaces.Discrete(arms), index=index, hp_config=zoo.hp_config(algo), lamb=lamb, gamma=gamma,
               batch_size=8, lr=1e-3, actor_network=net)


def out_layer(agent):
    return agent.actor.get_output_dense()


def layer_numel(agent) -> int:
    return int(sum(p.numel() for p in out_layer(agent).parameters() if p.requires_grad))


def arm_features(agent, obs) -> np.ndarray:
    """Gradient feature of every arm, (arms, numel of the output layer), float64; leaves .grad fields alone."""
    layer = out_layer(agent)
    params = [p for p in layer.parameters() if p.requires_grad]
    x = agent.preprocess_observation(obs)
    mu = agent.actor(x)
    feats = []
    for k in range(mu.shape[0]):
        gr = torch.autograd.grad(mu[k].sum(), params, retain_graph=True, allow_unused=True)
        v = torch.cat([(g if g is not None else torch.zeros_like(p)).flatten() for g, p in zip(gr, params)])
        feats.append((v / np.sqrt(layer.weight.size(0))).detach().double().numpy())
    return np.stack(feats)


def snapshot(agent):
    if agent is None:
        return {"nil": True}
    s = agent.sigma_inv
    sq = bool(s.ndim == 2 and s.shape[0] == s.shape[1])
    return {"nil": False, "layer": layer_numel(agent), "dim": int(s.shape[0]), "sq": sq, "numel": int(agent.numel),
            "exp_is_out": agent.exp_layer is out_layer(agent), "S": s.detach().cpu().double().numpy().copy()}


def contexts(rng, arms: int, layer: int, actor: str, nobs: int):
    """Integer contexts for the linear actors (small enough for 32-bit exact arithmetic in TLC), floats otherwise."""
    if actor in ("lin", "linb"):
        vals = [-1, 0, 1, 2] if layer <= 2 else [-1, 0, 1]
        return np.array([[rng.choice(vals) for _ in range(NIN)] for _ in range(arms)], dtype=np.float32)
    return np.array([[rng.uniform(-1, 1) for _ in range(nobs)] for _ in range(arms)], dtype=np.float32)


class Runner:
    def __init__(self, algo, actor, lamb, gamma, nslots=3, nfiles=2, seed=0, arms=3):
        self.algo, self.actor, self.lamb, self.gamma = algo, actor, lamb, gamma
        self.nslots, self.nfiles, self.seed, self.arms = nslots, nfiles, seed, arms
        self.slots = [None] * (nslots + 1)
        self.saved = {}                   # file -> matrix at save time
        self.ev = []
        self.dir = tempfile.mkdtemp(prefix="bandit-")
        self.mutations = {}

    def close(self):
        shutil.rmtree(self.dir, ignore_errors=True)

    def mutations_for(self, kind):
        from agilerl.hpo.mutation import Mutations
        if kind not in self.mutations:
            self.mutations[kind] = Mutations(mutation_sd=0.1, mutate_elite=True, rand_seed=self.seed + 11, **KIND_ARGS[kind])
        return self.mutations[kind]

    def path(self, f):
        return os.path.join(self.dir, f"f{f}.pt")

    def apply(self, op, e):
        import random
        n = len(self.ev)
        if op[0] == "create":
            _, s, k = op
            e["a"] = s
            self.slots[s] = make_agent(self.algo, self.actor, self.lamb, self.gamma, seed=self.seed * 7 + n, index=s - 1, k=k, arms=self.arms)
        elif op[0] == "decide":
            _, s, cseed, mask = op
            e["a"] = s
            ag = self.slots[s]
            rng = random.Random(cseed)
            nobs = int(ag.observation_space.shape[0])
            obs = contexts(rng, self.arms, layer_numel(ag), self.actor, nobs)
            e["obs"] = obs.tolist()
            e["mask"] = mask
            e["feats"] = arm_features(ag, obs)
            e["Spre"] = ag.sigma_inv.detach().cpu().double().numpy().copy()
            zoo.seed_all(self.seed * 13 + n)
            am = None if mask is None else np.array(mask)
            e["arm"] = int(ag.get_action(obs, action_mask=am))
        elif op[0] == "learn":
            _, s, b = op
            e["a"] = s
            e["src"] = self.slots[s].sigma_inv.detach().cpu().double().numpy().copy()
            zoo.learn(self.slots[s], self.algo, b)
        elif op[0] == "mutate":
            _, s, kind = op
            e.update({"a": s, "kind": kind})
            e["src"] = self.slots[s].sigma_inv.detach().cpu().double().numpy().copy()
            zoo.seed_all(self.seed * 31 + n)
            out = self.mutations_for(kind).mutation([self.slots[s]])
            assert len(out) == 1
            self.slots[s] = out[0]
            e["mut"] = str(out[0].mut)
        elif op[0] == "clone":
            _, a, c = op
            e.update({"a": a, "c": c})
            e["src"] = self.slots[a].sigma_inv.detach().cpu().double().numpy().copy()
            self.slots[c] = self.slots[a].clone(index=c - 1)
        elif op[0] == "save":
            _, a, f = op
            e.update({"a": a, "f": f})
            e["src"] = self.slots[a].sigma_inv.detach().cpu().double().numpy().copy()
            self.slots[a].save_checkpoint(self.path(f))
            self.saved[f] = self.slots[a].sigma_inv.detach().cpu().double().numpy().copy()
        elif op[0] == "loadnew":
            _, f, c = op
            e.update({"f": f, "c": c, "a": c})
            e["src"] = self.saved[f]
            cls = type(next(x for x in self.slots if x is not None))
            self.slots[c] = cls.load(self.path(f))
        elif op[0] == "loadinto":
            _, f, a = op
            e.update({"f": f, "a": a})
            e["src"] = self.saved[f]
            self.slots[a].load_checkpoint(self.path(f))
        else:
            raise ValueError(op)

    def run(self, ops):
        for op in ops:
            e = {"op": op[0], "exc": "", "a": 0, "c": 0, "f": 0, "kind": "none"}
            try:
                self.apply(op, e)
            except Exception as ex:
                import traceback
                e["exc"] = f"{type(ex).__name__}: {ex}"[:300]
                e["tb"] = traceback.format_exc()[-800:]
                e["snaps"] = [snapshot(None)] * self.nslots
                self.ev.append(e)
                break
            try:
                e["snaps"] = [snapshot(self.slots[s]) for s in range(1, self.nslots + 1)]
            except Exception as ex:
                e["exc"] = f"snapshot: {type(ex).__name__}: {ex}"[:300]
                e["snaps"] = [snapshot(None)] * self.nslots
                self.ev.append(e)
                break
            self.ev.append(e)
        return {"algo": self.algo, "actor": self.actor, "lamb": self.lamb, "gamma": self.gamma, "nslots": self.nslots,
                "nfiles": self.nfiles, "seed": self.seed, "arms": self.arms, "ops": [list(o) for o in ops], "ev": self.ev}


def run_script(algo, actor, lamb, gamma, ops, seed=0, nslots=3, nfiles=2, arms=3):
    torch.set_num_threads(1)
    r = Runner(algo, actor, lamb, gamma, nslots, nfiles, seed, arms)
    try:
        return r.run(ops)
    finally:
        r.close()


# ------------------------------------------------------------------------------------------- projections
def init_scale(raw):
    """Scale c of the matrix c I the first agent starts from (None if it is not a positive multiple of I)."""
    e0 = raw["ev"][0]
    if e0["exc"] or e0["op"] != "create":
        return None
    S = e0["snaps"][e0["a"] - 1]["S"]
    c = float(S[0, 0])
    if S.ndim != 2 or S.shape[0] != S.shape[1] or c <= 0 or np.abs(S - c * np.eye(S.shape[0])).max() > 1e-6:
        return None
    return c


def _micro(x: float) -> int:
    if not np.isfinite(x) or abs(x) > 1000:
        return BIG
    return int(round(x * 1e6))


def _hdr(raw, lam: Fraction, mode: str):
    import json
    return {"algo": raw["algo"], "actor": raw["actor"], "lamb": raw["lamb"], "gamma": raw["gamma"], "lam": [lam.numerator, lam.denominator],
            "mode": mode, "kind": "exact" if raw["actor"] in ("lin", "linb") else "inexact",
            "seed": raw["seed"], "arms": raw["arms"], "ops": json.dumps(raw["ops"])}


def exact_trace(raw, lam: Fraction, mode: str):
    """Trace for Bandit_Trace.tla: integer features, matrices in units of 1e-6."""
    ev = []
    for e in raw["ev"]:
        t = {k: e[k] for k in ("op", "exc", "a", "c", "f", "kind")}
        if e["op"] == "decide" and not e["exc"]:
            fr = np.rint(e["feats"])
            if np.abs(fr - e["feats"]).max() > 1e-9:
                raise RuntimeError(f"linear actor produced a non-integral gradient feature: {e['feats']}")
            t["feats"] = fr.astype(int).tolist()
            t["arm"] = e["arm"]
            t["obs"] = e["obs"]
            t["mask"] = e["mask"] if e["mask"] is not None else []
        post = []
        for sn in e["snaps"]:
            if sn["nil"]:
                post.append({"nil": True})
            else:
                post.append({"nil": False, "layer": sn["layer"], "dim": sn["dim"], "sq": sn["sq"], "numel": sn["numel"],
                             "exp_is_out": sn["exp_is_out"],
                             "S": [[_micro(v) for v in row] for row in sn["S"]] if sn["sq"] else []})
        t["post"] = post
        if e["exc"]:
            t["tb"] = e.get("tb", "")
        ev.append(t)
    return {"cfg": _hdr(raw, lam, mode), "ev": ev}


RES_TOL = 1e-3
EQ_TOL = 1e-7


def float_trace(raw, lam: Fraction, mode: str):
    """Trace for Banditx_Trace.tla: per slot the decision history the driver used and the class of the
    residual  max | S (lam I + sum_{d in hist} g_d g_d^T) - I |."""
    lamf = float(lam)
    ns = raw["nslots"]
    hist = {s: [] for s in range(1, ns + 1)}
    fhist = {}
    gvec = {}                      # decision id (event number) -> feature used
    prev = {s: None for s in range(1, ns + 1)}
    ev = []

    def isinit(sn):
        return bool(sn["sq"] and sn["dim"] == sn["layer"] and np.abs(sn["S"] - np.eye(sn["dim"]) / lamf).max() <= 1e-6)

    def eq(sn, M):
        return bool(M is not None and sn["sq"] and M.shape == sn["S"].shape and np.abs(sn["S"] - M).max() <= EQ_TOL)

    def residual(sn, h):
        if not sn["sq"]:
            return "bad", float("inf")
        d = sn["dim"]
        G = lamf * np.eye(d)
        for i in h:
            g = gvec[i]
            if g.shape[0] != d:
                return "bad", float("inf")
            G = G + np.outer(g, g)
        r = float(np.abs(sn["S"] @ G - np.eye(d)).max())
        return ("ok" if np.isfinite(r) and r <= RES_TOL else "bad"), r

    for l, e in enumerate(raw["ev"], start=1):
        t = {k: e[k] for k in ("op", "exc", "a", "c", "f", "kind")}
        if e["exc"]:
            t["post"] = [{"nil": True}] * ns
            t["tb"] = e.get("tb", "")
            ev.append(t)
            break
        snaps = e["snaps"]
        op = e["op"]
        tgt = e["c"] if op in ("clone", "loadnew") else e["a"]
        sn = snaps[tgt - 1]
        if op == "create":
            hist[tgt] = []
        elif op == "decide":
            F = e["feats"]
            t.update({"arm": e["arm"], "narms": int(F.shape[0]), "featdim": int(F.shape[1]), "mask": e["mask"] if e["mask"] is not None else []})
            Spre = e["Spre"]
            t["bonus_ok"] = bool(Spre.ndim == 2 and Spre.shape[0] == Spre.shape[1] == F.shape[1]
                                 and all(float(g @ Spre @ g) >= -1e-9 for g in F))
            if 0 <= e["arm"] < F.shape[0]:
                gvec[l] = F[e["arm"]]
            else:
                gvec[l] = np.zeros(F.shape[1])
            hist[tgt] = hist[tgt] + [l]
        elif op in ("mutate", "clone", "loadnew", "loadinto"):
            src_hist = {"mutate": lambda: hist[e["a"]], "clone": lambda: hist[e["a"]],
                        "loadnew": lambda: fhist[e["f"]], "loadinto": lambda: fhist[e["f"]]}[op]()
            hist[tgt] = [] if isinit(sn) else list(src_hist)
        elif op == "save":
            fhist[e["f"]] = list(hist[e["a"]])
        post = []
        for s in range(1, ns + 1):
            p = snaps[s - 1]
            if p["nil"]:
                post.append({"nil": True})
                continue
            cls, r = residual(p, hist[s])
            q = {"nil": False, "layer": p["layer"], "dim": p["dim"], "sq": p["sq"], "numel": p["numel"], "exp_is_out": p["exp_is_out"],
                 "hist": list(hist[s]), "res": cls, "resid": (r if np.isfinite(r) else -1.0),
                 "isinit": isinit(p), "same": eq(p, prev[s]["S"]) if prev[s] is not None and not prev[s]["nil"] else False,
                 "eqsrc": eq(p, e.get("src")) if s == tgt and "src" in e else False}
            post.append(q)
        t["post"] = post
        ev.append(t)
        prev = {s: snaps[s - 1] for s in range(1, ns + 1)}
    return {"cfg": _hdr(raw, lam, mode), "ev": ev}


def lam_fraction(x: float) -> Fraction:
    return Fraction(x).limit_denominator(64)


# ------------------------------------------------------------------------------------------- jobs
def observed_protocol(raw, c):
    """For the evidence file: what the real code did to the matrix at every non-decision operation
    (reinit = c I of the output layer's size, carry = the source's matrix)."""
    out = {}
    for e in raw["ev"]:
        if e["exc"] or e["op"] in ("create", "decide"):
            continue
        tgt = e["c"] if e["op"] in ("clone", "loadnew") else e["a"]
        sn = e["snaps"][tgt - 1]
        if sn["nil"] or not sn["sq"]:
            continue
        S, src = sn["S"], e.get("src")
        ini = c is not None and np.abs(S - c * np.eye(S.shape[0])).max() <= 1e-6
        car = src is not None and src.shape == S.shape and np.abs(S - src).max() <= EQ_TOL
        key = e["op"] + (":" + e["kind"] if e["op"] == "mutate" else "")
        if src is not None and src.shape != S.shape:
            key += ":resized"
        what = "carry=reinit" if (ini and car) else "reinit" if ini else "carry" if car else "other"
        out.setdefault(key, {}).setdefault(what, 0)
        out[key][what] += 1
    return out


def run_job(job):
    """job = (algo, actor, lamb, gamma, ops, seed, arms) -> {"exact": [traces], "float": [traces], "protocol": {...}}"""
    algo, actor, lamb, gamma, ops, seed, arms = job
    raw = run_script(algo, actor, lamb, gamma, ops, seed=seed, arms=arms)
    lam = lam_fraction(lamb)
    c = init_scale(raw)
    proj = exact_trace if actor in ("lin", "linb") else float_trace
    traces = [proj(raw, lam, "strict")]
    if c is not None and abs(c - 1.0 / float(lam)) > 1e-6:
        # the real agent starts from c I with c != 1/lambda: additionally validate everything else relative to
        # the lambda this scale corresponds to (the strict trace is rejected at the first event)
        traces.append(proj(raw, lam_fraction(1.0 / c), "relative"))
    resized = sum(1 for i in range(1, len(raw["ev"])) for a, b in zip(raw["ev"][i - 1]["snaps"], raw["ev"][i]["snaps"])
                  if not a["nil"] and not b["nil"] and a["layer"] != b["layer"])
    return {"kind": "exact" if actor in ("lin", "linb") else "float", "traces": traces,
            "protocol": observed_protocol(raw, c), "resized": resized, "nev": len(raw["ev"]),
            "decisions": sum(1 for e in raw["ev"] if e["op"] == "decide" and not e["exc"])}
