"""Driver for X03: replay a history of operations into the REAL agilerl.wrappers.learning.BanditEnv (bare, behind Skill, or
behind a subclass of Skill that overrides skill_reward) and record what every call returned.

The row the environment draws comes from python's `random` (seeded here for reproducibility only); it is not recorded: the
trace specification recovers the candidates from the returned state.

Skill is a gymnasium.Wrapper and insists on a gymnasium.Env: the real BanditEnv is put behind the 6-line adapter _GymBandit
(5-tuple step, (obs, info) reset) -- an input of the test, not code under test.

history: list of ("new", e) | ("reset", e) | ("step", e, k); e in {1, 2}; wrap: ("none"|"plain"|"override") per object.
"""
from __future__ import annotations

import random

import numpy as np

NOT_INT = 99


def frames(rows, named):
    import pandas as pd

    xs = [r["x"] for r in rows]
    ys = [r["y"] for r in rows]
    if named:      # named columns, as the UCI frames the tutorials use
        f = pd.DataFrame(xs, columns=[f"f{i}" for i in range(len(xs[0]))])
        t = pd.DataFrame({"label": ys})
    else:
        f = pd.DataFrame(xs)
        t = pd.DataFrame(ys)
    return f, t


def _adapter():
    import gymnasium as gym

    class _GymBandit(gym.Env):
        def __init__(self, env):
            self.env = env
            self.action_space = gym.spaces.Discrete(env.arms)
            self.observation_space = gym.spaces.Box(-np.inf, np.inf, (env.arms, *env.context_dim))

        def reset(self, *, seed=None, options=None):
            return self.env.reset(), {}

        def step(self, k):
            s, r = self.env.step(k)
            return s, r, False, False, {}

    return _GymBandit


def _mat(a):
    """returned state -> (integer matrix, all entries integer?)"""
    a = np.asarray(a)
    if a.ndim != 2:
        return [[int(x) for x in np.asarray(a).reshape(-1)[:16] if float(x).is_integer()]], False
    ok = bool(np.all(np.isfinite(a)) and np.all(a == np.round(a)))
    return [[int(round(float(x))) if np.isfinite(x) else NOT_INT for x in row] for row in a], ok


def _num(r):
    try:
        r = float(r)
        return int(r) if r.is_integer() else NOT_INT
    except Exception:
        return NOT_INT


def run(rows, history, wrap=("none", "none"), named=False, seed=0, kind=""):
    from agilerl.wrappers.learning import BanditEnv, Skill

    class Override(Skill):
        def skill_reward(self, observation, reward, terminated, truncated, info):
            return observation, 10 * reward + 5, True, truncated, info

    random.seed(seed)
    feats, targs = frames(rows, named)
    objs = {}
    ev = []
    for h in history:
        op, e = h[0], h[1]
        w = wrap[e - 1]
        rec = {"op": op, "env": e, "exc": "", "k": 0, "reward": 0, "term": False, "state": [], "intok": True, "arms": 0, "cdim": []}
        try:
            if op == "new":
                env = BanditEnv(feats, targs)
                rec["arms"] = int(env.arms)
                rec["cdim"] = [int(x) for x in env.context_dim]
                if w == "plain":
                    env = Skill(_adapter()(env))
                elif w == "override":
                    env = Override(_adapter()(env))
                objs[e] = env
            elif op == "reset":
                s = objs[e].reset()
                if w != "none":
                    s = s[0]
                rec["state"], rec["intok"] = _mat(s)
            elif op == "step":
                k = h[2]
                rec["k"] = int(k)
                res = objs[e].step(k)
                if w == "none":
                    s, r = res
                    term = False
                else:
                    s, r, term, _trunc, _info = res
                rec["state"], rec["intok"] = _mat(s)
                rec["reward"] = _num(r)
                rec["term"] = bool(term)
            else:
                raise ValueError(op)
        except Exception as ex:
            rec["exc"] = f"{type(ex).__name__}: {ex}"[:200]
            ev.append(rec)
            break
        ev.append(rec)
    return {"cfg": {"rows": rows, "wrap": list(wrap), "named": named, "kind": kind, "seed": seed}, "ev": ev}
