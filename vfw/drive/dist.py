"""Driver for C16 (Dist.tla): the real StochasticActor / EvolvableDistribution, PPO and IPPO.

Kernel part.  Every case dumped by TLC (Dist_Dump*.cfg) is a pmf per component (resp. mu, log2 std, eps)
plus a mask.  The head network wrapped by the real EvolvableDistribution is replaced *here* by a table lookup
keyed by the content of the observation (the network is an input of the property, not the code under test):
logits = ln p (+ a per-row constant), resp. ln p/(1-p) for MultiBinary, resp. mu for Box.  The real
`actor(obs, mask)`, `actor.action_log_prob`, `actor.action_entropy`, `PPO.get_action`, `PPO.evaluate_actions`,
`PPO.learn`, `IPPO.get_action`, `IPPO.learn` are called; exp(log_prob) is compared with the rational of the
specification, the entropy with -sum p ln p of the specification's masked component pmfs, sampled actions are
looked up in the support.  Gaussian draws are scripted (torch.normal -> mean + std * eps) so that the sampled
point is the grid point of the case.

History part.  Real, unstubbed networks (all spaces, with and without squash_output): sequences of forward
passes (Sample), re-evaluations of stored actions (Eval) and weight changes (Learn) are recorded as traces for
Dist_Trace.tla: one event per row with the ids of (weights fingerprint, observation, action, reported value).
"""
from __future__ import annotations

import hashlib
import math
from unittest import mock

import numpy as np
import torch
from gymnasium import spaces

LN2 = math.log(2.0)
LN2PI = math.log(2.0 * math.pi)
EPS_SQUASH = 1e-6                      # the constant in TorchDistribution.log_prob's tanh correction
NET = {"encoder_config": {"hidden_size": [16]}, "head_config": {"hidden_size": [16]}}
OBS_SPACE = spaces.Box(-1e6, 1e6, (3,), np.float32)
IPPO_IDS = ["agent_0", "agent_1", "other_0"]
WIDE = 64.0                            # bounds of un-squashed Box spaces: never clip a grid point


# ======================================================================================= cases
def shape_key(c):
    if c["fam"] == "box":
        return ("box", (c["d"],))
    return (c["fam"], tuple(c["nvec"]))


def shape_name(key, squash=False, bounds="unit", evolved=False):
    fam, nv = key
    s = f"{fam}{'x'.join(str(n) for n in nv)}"
    if squash:
        s += "+squash" + ("" if bounds == "unit" else "+" + bounds)
    if evolved:
        s += "+evolved"
    return s


def space_of(key, squash=False, bounds="unit"):
    fam, nv = key
    if fam == "disc":
        return spaces.Discrete(nv[0])
    if fam == "multi":
        return spaces.MultiDiscrete(list(nv))
    if fam == "bits":
        return spaces.MultiBinary(nv[0])
    d = nv[0]
    if squash:
        lo, hi = (-1.0, 1.0) if bounds == "unit" else (-2.0, 6.0)
        return spaces.Box(lo, hi, (d,), np.float32)
    return spaces.Box(-WIDE, WIDE, (d,), np.float32)


def width_of(key):
    fam, nv = key
    return sum(nv) if fam in ("disc", "multi") else nv[0]


def logits_of(c, shift=0.0):
    """What the stubbed head returns for this case (float64; cast to float32 when tabulated)."""
    if c["fam"] == "box":
        return [m / 4.0 for m in c["mu"]]
    if c["fam"] == "bits":
        return [math.log(p / (c["pden"] - p)) for p in c["p"]]
    return [math.log(p / c["pden"]) + shift for p in c["p"]]


def all_ones(c):
    return c["fam"] == "box" or all(x == 1 for x in c["m"])


def table_of(c):
    return {tuple(r["a"]): (r["num"], bool(r["legal"])) for r in c["table"]}


def prob_of(c, a):
    num, legal = table_of(c)[tuple(int(x) for x in a)]
    return num / c["den"], legal


def entropy_of(c):
    """-sum p ln p of the joint distribution = sum over the components (harness, float64, from the spec's pmfs)."""
    if c["fam"] == "box":
        return c["d"] * (0.5 + 0.5 * LN2PI) + c["kk"] * LN2
    h = 0.0
    for comp in c["comps"]:
        for n in comp["num"]:
            if n > 0:
                q = n / comp["den"]
                h -= q * math.log(q)
    return h


def box_logp(qn, kk, d):
    return -qn / 128.0 - kk * LN2 - 0.5 * d * LN2PI


def box_point(c):
    return [a / 4.0 for a in c["act"]]


def tanh_corr(a):
    """sum log(1 - a^2 + eps) exactly as TorchDistribution.log_prob defines the correction (float64)."""
    return float(sum(math.log(1.0 - float(x) * float(x) + EPS_SQUASH) for x in a))


# ======================================================================================= stubs and spies
class Head:
    """Replacement for the forward of the MLP wrapped by EvolvableDistribution: table lookup keyed by the
    observation ids that the actor's extract_features saw last."""
    current = None

    def __init__(self):
        self.table = None
        self.ids = None
        self.eps = None               # scripted standard-normal draws per table row (Box)
        self.calls = 0
        self.real = None

    def __call__(self, latent, *a, **k):
        self.calls += 1
        Head.current = self
        out = self.table[self.ids]
        if self.real is not None and torch.is_grad_enabled():
            # keep the autograd graph of the real head alive for learn(): r - r = 0 exactly, the value is unchanged
            r = self.real(latent)
            out = out + (r - r.detach())
        return out


def obs_ids(obs):
    t = torch.as_tensor(obs)
    if t.ndim == 1:
        t = t.unsqueeze(0)
    return t[:, 0].round().long()


def obs_of(ids):
    ids = np.asarray(ids, dtype=np.float32)
    return np.stack([ids, ids, ids], axis=-1).astype(np.float32)


def instrument(actor, head=None):
    """Record the observation ids of every forward pass; optionally stub the wrapped head network."""
    real = actor.extract_features
    actor._c16_ids = None
    actor._c16_obs = None

    def extract(obs, *a, **k):
        actor._c16_obs = obs
        if head is not None:
            head.ids = obs_ids(obs)
        return real(obs, *a, **k)

    actor.extract_features = extract
    if head is not None:
        head.real = actor.head_net.wrapped.forward
        actor.head_net.wrapped.forward = head
    return actor


def scripted_normal(mean, std, *a, out=None, **k):
    """torch.normal(mean, std) with scripted standard-normal draws: mean + std * eps[row]."""
    h = Head.current
    r = mean + std * h.eps[h.ids].to(mean.dtype)
    if out is not None:
        out.copy_(r)
        return out
    return r


class LogProbSpy:
    """Observes actor.action_log_prob (arguments, result, observation of the last forward pass, weights)."""

    def __init__(self, actor, tag=""):
        self.actor, self.tag, self.recs = actor, tag, []
        self.real = actor.action_log_prob
        actor.action_log_prob = self

    def __call__(self, action):
        rec = {"tag": self.tag, "obs": self.actor._c16_obs, "action": action.detach().clone() if isinstance(action, torch.Tensor) else action,
               "w": fingerprint(self.actor), "exc": "", "out": None,
               "log_std": (self.actor.head_net.log_std.detach().clone() if hasattr(self.actor.head_net, "log_std") and
                           isinstance(getattr(self.actor.head_net, "log_std", None), torch.Tensor) else None)}
        self.recs.append(rec)
        try:
            out = self.real(action)
        except Exception as ex:
            rec["exc"] = _exc(ex)
            raise
        rec["out"] = out.detach().clone()
        return out

    def remove(self):
        try:
            del self.actor.action_log_prob
        except AttributeError:
            pass


def fingerprint(actor):
    h = hashlib.sha256()
    for k, v in sorted(actor.state_dict().items()):
        h.update(k.encode())
        h.update(v.detach().cpu().numpy().tobytes())
    return h.hexdigest()[:16]


def _exc(ex):
    return f"{type(ex).__name__}: {ex}"[:200]


def _raises(text):
    """Clause name of a call that raised: Raises[ExceptionType]."""
    return f"Raises[{text.split(':')[0]}]"


def seed_all(s):
    np.random.seed(s % (2 ** 32))
    torch.manual_seed(s)


# ======================================================================================= agents
def make_actor(key, squash=False, bounds="unit", seed=0, std_init=0.0):
    from agilerl.networks.actors import StochasticActor

    seed_all(seed)
    return StochasticActor(OBS_SPACE, space_of(key, squash, bounds), squash_output=squash, action_std_init=std_init,
                           **{k: dict(v) for k, v in NET.items()})


# the last step is NOT followed by a clone: between two tournaments an agent acts and learns with the network exactly as the
# mutation left it (clone() rebuilds from init_dict and could repair what recreate_network dropped)
EVOLVE_STEPS = ["head_net.add_node", "remove_latent_node", "encoder.add_node", "add_latent_node"]


def evolve_actor(actor):
    """The clone-and-mutate history a policy network goes through in evolutionary HPO (one mutation per generation)."""
    for m in EVOLVE_STEPS:
        actor = actor.clone()
        getattr(actor, m)()
    return actor


def evolve_agent(ag, seed=0):
    """The same history through the real HPO code: clone(), Mutations.architecture_mutate with the sampled method scripted."""
    from agilerl.hpo import mutation as mut_mod

    mu = mut_mod.Mutations(no_mutation=0, architecture=1, new_layer_prob=0.5, parameters=0, activation=0, rl_hp=0, rand_seed=seed, device="cpu")
    for m in EVOLVE_STEPS:
        ag = ag.clone()
        with mock.patch.object(mut_mod, "get_architecture_mut_method", lambda *a, **k: m):
            ag = mu.architecture_mutate(ag)
    return ag


def _ev(obj, kernel):
    """kernel.evolved: False = fresh object; True = the object as the last mutation left it; "cloned" = a clone taken right
    after the last mutation (what tournament selection hands to the next generation)."""
    if not kernel.evolved:
        return obj
    obj = evolve_agent(obj, kernel.seed) if hasattr(obj, "learn") else evolve_actor(obj)
    return obj.clone() if kernel.evolved == "cloned" else obj


def _net(squash):
    nc = {k: dict(v) for k, v in NET.items()}
    if squash:
        nc["squash_output"] = True
    return nc


INFO = {}


def make_ppo(key, squash=False, bounds="unit", seed=0, batch_size=64, std_init=0.0, explicit=False):
    """PPO with share_encoders=True cannot be constructed under Python 3.12 (DESIGN.md 6-P): fall back."""
    from agilerl.algorithms.ppo import PPO

    seed_all(seed)
    # PPO only accepts action_std_init >= 0: such values go through the constructor, others are written into the parameter
    ctor_std = float(std_init) if std_init >= 0 else 0.0
    kw = dict(batch_size=batch_size, update_epochs=1, lr=1e-3, action_std_init=ctor_std)
    sp = space_of(key, squash, bounds)
    if explicit:
        # the policy / value networks handed over ready-made (PPO deep-copies them)
        from agilerl.networks.actors import StochasticActor
        from agilerl.networks.value_networks import ValueNetwork
        kw["actor_network"] = StochasticActor(OBS_SPACE, sp, squash_output=squash, action_std_init=ctor_std, **_net(False))
        kw["critic_network"] = ValueNetwork(OBS_SPACE, **_net(False))
    else:
        kw["net_config"] = _net(squash)
    try:
        ag = PPO(OBS_SPACE, sp, share_encoders=True, **kw)
        INFO["ppo_share_encoders"] = True
    except AssertionError:
        ag = PPO(OBS_SPACE, sp, share_encoders=False, **kw)
        INFO["ppo_share_encoders"] = False
    if std_init < 0:
        set_log_std([ag.actor], std_init)
    return ag


def set_log_std(actors, value):
    """PPO / IPPO only accept action_std_init >= 0; other initialisations are written into the parameter."""
    for ac in actors:
        if isinstance(getattr(ac.head_net, "log_std", None), torch.Tensor):
            ac.head_net.log_std.data.fill_(float(value))


# heterogeneous population: the two policy groups have different action spaces and their members are interleaved in agent_ids
HETERO_IDS = ["agent_0", "other_0", "agent_1"]


def other_space(key):
    """Action space of the second policy group of a heterogeneous IPPO population (another family than the one under test)."""
    return spaces.Discrete(3) if key[0] in ("bits", "box") else spaces.MultiBinary(2)


def other_expect(key):
    """(log-probability, entropy) of any action of the second group when its head outputs zero logits (uniform)."""
    return (math.log(1.0 / 3.0), math.log(3.0)) if key[0] in ("bits", "box") else (2.0 * math.log(0.5), 2.0 * LN2)


def ippo_ids(hetero):
    return list(HETERO_IDS if hetero else IPPO_IDS)


def case_ids(hetero):
    """The agents whose policy is the one under test."""
    return ["agent_0", "agent_1"] if hetero else list(IPPO_IDS)


def make_ippo(key, squash=False, bounds="unit", seed=0, batch_size=64, std_init=0.0, hetero=False, explicit=False):
    from agilerl.algorithms.ippo import IPPO
    from agilerl.networks.actors import StochasticActor
    from agilerl.networks.value_networks import ValueNetwork

    seed_all(seed)
    sp = space_of(key, squash, bounds)
    ids = ippo_ids(hetero)
    sps = [sp if a in case_ids(hetero) else other_space(key) for a in ids]
    # PPO / IPPO only accept action_std_init >= 0: such values go through the constructor, others are written into the parameter
    ctor_std = float(std_init) if std_init >= 0 else 0.0
    kw = dict(agent_ids=ids, batch_size=batch_size, update_epochs=1, lr=1e-3, action_std_init=ctor_std)
    if not squash and not explicit:
        ag = IPPO([OBS_SPACE] * 3, sps, net_config=_net(False), **kw)
        if std_init < 0:
            set_log_std(ag.actors, std_init)
        return ag
    # IPPO(net_config={"squash_output": True}) hands the flag to ValueNetwork as well (TypeError): squashed policies
    # can only be given as explicit networks (one per policy group, in the order of first appearance in agent_ids)
    group_sps = [sp, other_space(key)] if hetero else [sp, sp]
    actors = [StochasticActor(OBS_SPACE, g, squash_output=(squash and g is sp), action_std_init=ctor_std, **_net(False)) for g in group_sps]
    critics = [ValueNetwork(OBS_SPACE, **_net(False)) for _ in range(2)]
    ag = IPPO([OBS_SPACE] * 3, sps, actor_networks=actors, critic_networks=critics, **kw)
    # (if IPPO's copy of the networks lost squash_output the kernels report un-squashed samples: Support / TanhCorrection)
    if std_init < 0:
        set_log_std(ag.actors, std_init)
    return ag


# ======================================================================================= row checks
def rel_close(x, want, rel, absol=0.0):
    return abs(x - want) <= rel * abs(want) + absol


TOL_P = 1e-6            # relative tolerance on exp(log_prob) (discrete families)
TOL_H = 2e-6            # absolute/relative tolerance on entropies
TOL_BOX = 1e-5          # absolute + relative tolerance on Box log-densities (float32 quadratic form)


def action_tuple(a):
    a = np.asarray(a).reshape(-1)
    return tuple(int(round(float(x))) for x in a)


def check_disc_row(c, a, lp, ent, path):
    """One row of a discrete family against the case.  Returns [(clause, detail)]."""
    bad = []
    try:
        at = action_tuple(a)
        tab = table_of(c)
        if at not in tab or any(abs(float(x) - round(float(x))) > 0 for x in np.asarray(a).reshape(-1)):
            return [("Support", f"action {np.asarray(a).tolist()} is not an element of the action space")]
        num, legal = tab[at]
        p = num / c["den"]
        if path == "sample":
            if not legal:
                bad.append(("MaskedZero", f"sampled action {list(at)} is masked (mask {c['m']})"))
            elif num == 0:
                bad.append(("Support", f"sampled action {list(at)} has probability 0"))
        lpf = float(lp)
        if math.isnan(lpf):
            bad.append(("LogProb", f"log_prob of {list(at)} is NaN"))
        elif num == 0:
            if math.exp(lpf) > 1e-30:
                bad.append(("MaskedZero" if not legal else "LogProb",
                            f"P({list(at)}) reported exp({lpf:.6g}) = {math.exp(lpf):.6g}, specification 0"))
        elif not rel_close(math.exp(lpf), p, TOL_P):
            bad.append(("LogProb", f"P({list(at)}) reported {math.exp(lpf):.9g}, specification {num}/{c['den']} = {p:.9g}"))
        if ent is not None:
            h = entropy_of(c)
            if not rel_close(float(ent), h, TOL_H, TOL_H):
                bad.append(("Entropy", f"entropy reported {float(ent):.9g}, specification {h:.9g}"))
    except Exception as ex:           # projection failure = the row is not what the API promises
        bad.append(("Shape", _exc(ex)))
    return bad


def check_box_row(c, a, lp, ent, *, u_want, qn, squash, path, check_point=True):
    """Box row: the Gaussian point u_want (= mu + std*eps), its quadratic form qn/128; a is the returned /
    evaluated action (tanh(u) when squashed)."""
    bad = []
    try:
        d = c["d"]
        a = np.asarray(a, dtype=np.float64).reshape(-1)
        if a.shape[0] != d:
            return [("Shape", f"action has {a.shape[0]} entries, space has {d}")]
        want_a = np.tanh(u_want) if squash else np.asarray(u_want)
        if check_point and path == "sample" and not np.allclose(a, want_a, rtol=2e-6, atol=2e-6):
            bad.append(("Support", f"returned action {a.tolist()} is not the draw mu + std*eps{' squashed' if squash else ''} = {want_a.tolist()}"))
        want = box_logp(qn, c["kk"], d)
        clause = "LogProb"
        if squash:
            want -= tanh_corr(want_a)
            clause = "TanhCorrection"
        lpf = float(lp)
        tol = TOL_BOX * (1.0 + abs(want))
        if squash:      # conditioning of log(1 - a^2 + eps) in float32 (a^2 carries a relative error of 2^-23)
            tol += float(sum(3.0 * 2.0 ** -23 / (1.0 - x * x + EPS_SQUASH) for x in want_a))
        if not (abs(lpf - want) <= tol):
            bad.append((clause, f"log_prob reported {lpf:.9g}, specification -{qn}/128 - {c['kk']} ln2 - {d}/2 ln(2pi)"
                                f"{' - sum log(1-a^2+1e-6)' if squash else ''} = {want:.9g} at action {a.tolist()}"))
        if ent is not None and not squash:
            h = entropy_of(c)
            if not rel_close(float(ent), h, TOL_H, TOL_H):
                bad.append(("Entropy", f"entropy reported {float(ent):.9g}, specification {h:.9g}"))
    except Exception as ex:
        bad.append(("Shape", _exc(ex)))
    return bad


# ======================================================================================= kernel replay
class Failure:
    def __init__(self, level, shape, path, clause, detail, case, extra=None):
        self.level, self.shape, self.path, self.clause, self.detail, self.case = level, shape, path, clause, detail, case
        self.extra = extra or {}

    @property
    def signature(self):
        return f"dist:{self.level}:{self.shape}:{self.path}:{self.clause}"

    def replay(self):
        return {"kind": "kernel-case", "level": self.level, "shape": self.shape, "path": self.path, "clause": self.clause,
                "detail": self.detail, "case": self.case, **self.extra}


def _rows_eval(cases):
    """(case, stored action) pairs: every joint action of every case."""
    rows = []
    for c in cases:
        for r in c["table"]:
            rows.append((c, r["a"]))
    return rows


def _batches(rows, sizes, start=0):
    i, k = 0, start
    while i < len(rows):
        b = sizes[k % len(sizes)]
        yield rows[i:i + b]
        i += b
        k += 1


def _padn(part, n):
    """Pad a batch (cyclically) to a multiple of the n agents that carry cases."""
    part = list(part)
    m = len(part)
    i = 0
    while len(part) % n:
        part.append(part[i % m])
        i += 1
    return part


def _pad3(part):
    return _padn(part, 3)


def _keyed(ids, k, f):
    """{agent id: f(agent id)} with the keys inserted in the k-th rotation of ids (odd k: reversed as well): the order in which a
    caller fills its dictionaries is not part of the interface."""
    r = k % len(ids)
    order = list(ids[r:]) + list(ids[:r])
    if k % 2:
        order.reverse()
    return {a: f(a) for a in order}


def check_other_rows(key, a, lp, ent):
    """Rows of the second policy group of a heterogeneous IPPO population (head stubbed with zero logits = uniform)."""
    bad = []
    sp = other_space(key)
    want_lp, want_h = other_expect(key)
    a = np.asarray(a)
    for e in range(a.shape[0]):
        row = a[e].reshape(-1)
        ok = (row.shape[0] == 1 and 0 <= int(row[0]) < sp.n) if isinstance(sp, spaces.Discrete) else \
             (row.shape[0] == sp.n and all(int(x) in (0, 1) for x in row))
        if not ok:
            bad.append(("Support", f"second group ({sp}): action {a[e].tolist()} is not an element of its action space"))
        elif not rel_close(float(lp[e]), want_lp, TOL_P, TOL_P):
            bad.append(("LogProb", f"second group ({sp}, uniform policy): log_prob {float(lp[e]):.9g}, expected {want_lp:.9g}"))
        elif not rel_close(float(ent[e]), want_h, TOL_H, TOL_H):
            bad.append(("Entropy", f"second group ({sp}, uniform policy): entropy {float(ent[e]):.9g}, expected {want_h:.9g}"))
    return bad[:1]


def _act_tensor(key, acts):
    fam = key[0]
    if fam == "disc":
        return torch.tensor([a[0] for a in acts], dtype=torch.long)
    if fam == "multi":
        return torch.tensor(acts, dtype=torch.long)
    if fam == "bits":
        return torch.tensor(acts, dtype=torch.float32)
    return torch.tensor(acts, dtype=torch.float32)


MASK_KINDS = ["int64", "bool", "object", "torch-bool", "float32", "int8", "torch-int"]


def mask_as(m, kind):
    """The same 0/1 mask in the containers / dtypes in which callers legitimately hand it over (ArrayOrTensor): integer, boolean
    and float arrays, torch tensors, and the object array of per-environment masks that gymnasium's vector environments put
    into `info["action_mask"]`."""
    m = np.asarray(m, dtype=np.int64)
    if kind == "bool":
        return m.astype(bool)
    if kind == "float32":
        return m.astype(np.float32)
    if kind == "int8":
        return m.astype(np.int8)
    if kind == "torch-bool":
        return torch.as_tensor(m.astype(bool))
    if kind == "torch-int":
        return torch.as_tensor(m)
    if kind == "object" and m.ndim == 2:
        o = np.empty(m.shape[0], dtype=object)
        for i in range(m.shape[0]):
            o[i] = m[i].astype(np.int8)
        return o
    return m


def _mask_arg(rows, k, width):
    """Mask argument for a physical batch: None / all-ones array when no row is masked; the container / dtype varies with k."""
    m = np.array([c["m"] for c, _ in rows], dtype=np.int64).reshape(len(rows), width)
    if m.all() and k % 2 == 0:
        return None
    return mask_as(m, MASK_KINDS[k % len(MASK_KINDS)])


class DiscKernel:
    """One action-space shape of a discrete family: the real actor, PPO and IPPO with a stubbed head."""

    def __init__(self, key, seed, evolved=False):
        self.key, self.seed, self.evolved = key, seed, evolved
        self.shape = shape_name(key, evolved=evolved)
        self.width = width_of(key)
        self.samples = []
        self.fails = []
        self.stats = {"actor_calls": 0, "ppo_calls": 0, "ippo_calls": 0, "rows": 0}

    def fail(self, level, path, bad, c, **extra):
        if self.evolved:
            extra["evolve"] = "cloned" if self.evolved == "cloned" else "mutated"
        for clause, detail in bad:
            self.fails.append(Failure(level, self.shape, path, clause, detail, c, extra))

    def _table(self, rows, k):
        shifts = [0.0, 1.5, -3.0, 0.25]
        t = torch.tensor([logits_of(c, shifts[(i + k) % 4] if c["fam"] != "bits" else 0.0) for i, (c, _) in enumerate(rows)],
                         dtype=torch.float32)
        return t

    # ------------------------------------------------------------------ the actor network itself
    def run_actor(self, cases):
        actor = instrument(_ev(make_actor(self.key, seed=self.seed), self), Head())
        head = actor.head_net.wrapped.forward
        rows = _rows_eval(cases)
        seed_all(self.seed + 11)
        for k, part in enumerate(_batches(rows, [1, 2, 3, 5, 8, 13, 32], self.seed)):
            ids = list(range(len(part)))
            head.table = self._table(part, k)
            obs = torch.as_tensor(obs_of(ids))
            mask = _mask_arg(part, k, self.width)
            self.stats["actor_calls"] += 1
            try:
                with torch.no_grad():
                    a, lp, ent = actor(obs, action_mask=mask)
                    ent2 = actor.action_entropy()
                    lp2 = actor.action_log_prob(_act_tensor(self.key, [x for _, x in part]))
            except Exception as ex:
                self.fail("actor", "forward", [(_raises(_exc(ex)), _exc(ex))], part[0][0], batch=len(part))
                continue
            a, lp, ent, lp2, ent2 = (x.detach().cpu().numpy() for x in (a, lp, ent, lp2, ent2))
            if lp.shape != (len(part),) or lp2.shape != (len(part),) or ent.shape != (len(part),):
                self.fail("actor", "forward", [("Shape", f"log_prob {lp.shape}, entropy {ent.shape}, action_log_prob {lp2.shape} for a batch of {len(part)}")],
                          part[0][0], batch=len(part))
                continue
            for i, (c, ea) in enumerate(part):
                self.stats["rows"] += 1
                self.fail("actor", "sample", check_disc_row(c, a[i], lp[i], ent[i], "sample"), c, batch=len(part), row=i)
                self.fail("actor", "eval", check_disc_row(c, ea, lp2[i], ent2[i], "eval"), c, batch=len(part), row=i, action=ea)
                if not self.samples and not all_ones(c) and prob_of(c, ea)[0] not in (0.0, 1.0):
                    self.samples.append({"level": "actor", "shape": self.shape, "p/8": c["p"], "mask": c["m"], "stored_action": ea,
                                         "spec_P": f"{table_of(c)[tuple(ea)][0]}/{c['den']}", "reported_exp_log_prob": float(math.exp(lp2[i])),
                                         "reported_entropy": float(ent2[i]), "spec_entropy": entropy_of(c)})

    # ------------------------------------------------------------------ PPO
    def run_ppo(self, cases, stride=1, off=0):
        ag = _ev(make_ppo(self.key, seed=self.seed), self)
        head = Head()
        instrument(ag.actor, head)
        sample_rows = [(c, None) for j, c in enumerate(cases) if j % stride == off or all_ones(c)]
        seed_all(self.seed + 12)
        for k, part in enumerate(_batches(sample_rows, [1, 4, 7, 16, 2], self.seed)):
            training = (k % 3 != 2)
            ag.set_training_mode(training)
            ids = list(range(len(part)))
            head.table = self._table(part, k)
            single = len(part) == 1 and k % 2 == 0
            obs = obs_of(ids)[0] if single else obs_of(ids)
            mask = _mask_arg(part, k, self.width)
            if single and mask is not None:
                mask = mask[0]
            self.stats["ppo_calls"] += 1
            try:
                a, lp, ent, _ = ag.get_action(obs, action_mask=mask)
            except Exception as ex:
                self.fail("PPO", "get_action", [(_raises(_exc(ex)), _exc(ex))], part[0][0], batch=len(part), single=single)
                continue
            a, lp, ent = np.asarray(a), np.asarray(lp).reshape(-1), np.asarray(ent).reshape(-1)
            if lp.shape[0] != len(part) or ent.shape[0] != len(part) or a.shape[0] != len(part):
                self.fail("PPO", "get_action", [("Shape", f"action {a.shape}, log_prob {lp.shape}, entropy {ent.shape} for {len(part)} observations")],
                          part[0][0], batch=len(part))
                continue
            for i, (c, _) in enumerate(part):
                self.stats["rows"] += 1
                self.fail("PPO", "sample", check_disc_row(c, a[i], lp[i], ent[i], "sample"), c, batch=len(part), row=i,
                          training=training)
        # evaluate_actions has no mask argument: stored actions are evaluated under the unmasked policy
        ones = [c for c in cases if all_ones(c)]
        rows = _rows_eval(ones)
        ag.set_training_mode(True)
        for k, part in enumerate(_batches(rows, [2, 5, 16, 3, 32], self.seed)):
            ids = list(range(len(part)))
            head.table = self._table(part, k)
            self.stats["ppo_calls"] += 1
            try:
                with torch.no_grad():
                    lp, ent, _ = ag.evaluate_actions(obs_of(ids), _act_tensor(self.key, [x for _, x in part]))
            except Exception as ex:
                self.fail("PPO", "evaluate_actions", [(_raises(_exc(ex)), _exc(ex))], part[0][0], batch=len(part))
                continue
            lp, ent = lp.detach().numpy(), ent.detach().numpy()
            if lp.shape != (len(part),) or ent.shape != (len(part),):
                self.fail("PPO", "evaluate_actions", [("Shape", f"log_prob {lp.shape}, entropy {ent.shape} for {len(part)} rows")], part[0][0])
                continue
            for i, (c, ea) in enumerate(part):
                self.stats["rows"] += 1
                self.fail("PPO", "eval", check_disc_row(c, ea, lp[i], ent[i], "eval"), c, batch=len(part), row=i, action=ea)
        self._learn_path("PPO", ag, [ag.actor], rows)

    # ------------------------------------------------------------------ IPPO
    def run_ippo(self, cases, stride=1, off=0, hetero=False):
        """hetero: a second policy group with another action space, its member interleaved in agent_ids; the dictionaries handed
        to get_action / learn come in varying key orders either way."""
        ag = _ev(make_ippo(self.key, seed=self.seed, hetero=hetero), self)
        level = "IPPO-hetero" if hetero else "IPPO"
        IDS, CIDS = ippo_ids(hetero), case_ids(hetero)
        n = len(CIDS)
        heads = []
        for ac in ag.actors:
            h = Head()
            instrument(ac, h)
            heads.append(h)
        case_heads = heads[:1] if hetero else heads
        if hetero:
            heads[1].table = torch.zeros((64, spaces.flatdim(other_space(self.key))), dtype=torch.float32)
        sample_rows = [(c, None) for j, c in enumerate(cases) if j % stride == off or all_ones(c)]
        seed_all(self.seed + 13)
        for k, part in enumerate(_batches(sample_rows, [n, 2 * n, 4 * n, 8 * n], self.seed)):
            part = _padn(part, n)
            E = len(part) // n
            training = (k % 3 != 2)
            ag.set_training_mode(training)
            tab = self._table(part, k)
            for h in case_heads:
                h.table = tab
            ids = np.arange(len(part)).reshape(n, E)
            row_of = {aid: ids[j] for j, aid in enumerate(CIDS)}
            # one environment: every other time as a non-vectorised environment hands it over (no batch axis)
            single = E == 1 and (k // 4) % 2 == 0
            obs = _keyed(IDS, k, lambda aid: (obs_of(row_of[aid]) if aid in row_of else obs_of(range(E)))[0 if single else slice(None)])
            m = np.array([c["m"] for c, _ in part], dtype=np.int64).reshape(n, E, self.width)
            infos = None
            if not m.all() or k % 2 == 1:
                # info dictionaries come from the environment: numpy arrays of any 0/1 dtype or lists
                kind = ["int64", "bool", "int8", "float32"][(k // 2) % 4]
                mk = {aid: (m[j].tolist() if k % 4 >= 2 else mask_as(m[j], kind)) for j, aid in enumerate(CIDS)}
                if single:
                    mk = {aid: v[0] for aid, v in mk.items()}
                # the second group of a heterogeneous population comes without masks
                infos = _keyed(IDS, k + 1, lambda aid: {"action_mask": mk[aid]} if aid in mk else {})
            self.stats["ippo_calls"] += 1
            try:
                a, lp, ent, _ = ag.get_action(obs, infos=infos)
            except Exception as ex:
                self.fail(level, "get_action", [(_raises(_exc(ex)), _exc(ex))], part[0][0], batch=len(part), single=single)
                continue
            for j, aid in enumerate(IDS):
                aj, lj, ej = np.asarray(a[aid]), np.asarray(lp[aid]).reshape(-1), np.asarray(ent[aid]).reshape(-1)
                if aj.shape[0] != E or lj.shape[0] != E or ej.shape[0] != E:
                    self.fail(level, "get_action", [("Shape", f"{aid}: action {aj.shape}, log_prob {lj.shape}, entropy {ej.shape} for {E} environments")],
                              part[0][0])
                    continue
                if aid not in row_of:
                    self.fail(level, "other-group", check_other_rows(self.key, aj, lj, ej), part[0][0], agent=aid)
                    continue
                for e in range(E):
                    c = part[row_of[aid][e]][0]
                    self.stats["rows"] += 1
                    self.fail(level, "sample", check_disc_row(c, aj[e], lj[e], ej[e], "sample"), c, agent=aid, env=e,
                              training=training)
        ones = [c for c in cases if all_ones(c)]
        self._learn_path(level, ag, list(ag.actors)[:1] if hetero else list(ag.actors), _rows_eval(ones), max_calls=(3 if hetero else 6))

    # ------------------------------------------------------------------ the evaluation inside learn()
    def _learn_path(self, level, ag, actors, rows, max_calls=6):
        """Roll-outs whose stored actions are chosen by the harness (shape and dtype of what get_action returned);
        learn() re-evaluates them through actor.action_log_prob, which is observed by a spy.  The head is stubbed, so the
        specification's value is demanded in every minibatch of every epoch: the minibatch size, the number of epochs and
        the vectorised / non-vectorised layout of the roll-out vary from call to call."""
        T, E = 8, 2
        hetero = level.endswith("hetero")
        IDS, CIDS = ippo_ids(hetero), case_ids(hetero)
        n = 1 if level == "PPO" else len(CIDS)
        per_call = T * E * n
        step = max(1, len(rows) // (per_call * max_calls))
        rows = rows[::step] if len(rows) > per_call * max_calls else rows
        ag.set_training_mode(True)
        for k, part in enumerate(_batches(rows, [per_call])):
            while len(part) < per_call:
                part = part + part[:per_call - len(part)]
            kk = k + self.seed
            ag.batch_size = [64, 6, 7][kk % 3]           # 16 / 32 rows per policy: no minibatch of a single row (learn() skips those)
            ag.update_epochs = 1 + kk % 2
            vec = kk % 4 != 1
            layout = dict(batch_size=ag.batch_size, update_epochs=ag.update_epochs, vectorised=vec)
            tab = self._table(part, k)
            for ac in actors:
                ac.head_net.wrapped.forward.table = tab
            spies = [LogProbSpy(ac, tag=str(j)) for j, ac in enumerate(actors)]
            exc = ""
            try:
                seed_all(self.seed + 100 + k)
                if level == "PPO":
                    exp = ppo_rollout(ag, self.key, part, T, E, vec=vec)
                else:
                    exp = ippo_rollout(ag, self.key, part, T, E, IDS, CIDS, vec=vec, k=kk)
                self.stats[level.split("-")[0].lower() + "_calls"] += 1
                ag.learn(exp)
            except Exception as ex:
                exc = _exc(ex)
            finally:
                for s in spies:
                    s.remove()
            if exc:
                self.fail(level, "learn", [(_raises(exc), exc)], part[0][0], rows=len(part), **layout)
            seen = set()
            for s in spies:
                for rec in s.recs:
                    if rec["out"] is None:
                        continue
                    ids = obs_ids(rec["obs"]).tolist()
                    out = rec["out"].numpy()
                    act = np.asarray(rec["action"])
                    if out.shape != (len(ids),) or act.shape[0] != len(ids):
                        self.fail(level, "learn-eval", [("Shape", f"action_log_prob received actions {act.shape} for {len(ids)} observations and returned {out.shape}")],
                                  part[ids[0]][0], **layout)
                        continue
                    for i, rid in enumerate(ids):
                        c, ea = part[rid]
                        seen.add(rid)
                        self.stats["rows"] += 1
                        bad = []
                        if action_tuple(act[i]) != tuple(ea):
                            bad.append(("StoredAction", f"row of observation {rid} is evaluated with action {act[i].tolist()}, stored {ea}"))
                        bad += [b for b in check_disc_row(c, act[i], out[i], None, "eval")]
                        self.fail(level, "learn-eval", bad, c, action=ea, **layout)
            if len(seen) < len(part) and not exc:
                self.fail(level, "learn-eval", [("Coverage", f"learn() re-evaluated {len(seen)} of {len(part)} stored rows")], part[0][0], **layout)


def _like(template, acts, key):
    """Stored actions with the shape and dtype of what get_action returned (template: (E, ...))."""
    a = np.asarray(acts)
    t = np.asarray(template)
    if key[0] == "disc":
        a = a.reshape(-1)
    return a.reshape(t.shape).astype(t.dtype)


def ppo_rollout(ag, key, part, T, E, vec=True):
    """vec=False: the layout train_on_policy stores for a non-vectorised environment (un-batched observations, the first row of
    what get_action returned, scalar rewards / dones): T * E steps of one environment."""
    if not vec:
        T, E = T * E, 1
    ids = np.arange(T * E).reshape(T, E)
    states, actions, logps, rews, dones, vals = [], [], [], [], [], []
    for t in range(T):
        obs = obs_of(ids[t]) if vec else obs_of(ids[t])[0]
        a, lp, _, v = ag.get_action(obs)
        stored = _like(a, [part[i][1] for i in ids[t]], key)
        states.append(obs)
        actions.append(stored if vec else stored[0])
        logps.append(np.asarray(lp) if vec else np.asarray(lp)[0])
        rews.append(np.ones((E,), np.float32) if vec else np.float32(1.0))
        dones.append(np.zeros((E,), np.float32) if vec else np.float32(0.0))
        vals.append(np.asarray(v) if vec else np.asarray(v)[0])
    if vec:
        return (states, actions, logps, rews, dones, vals, obs_of(ids[0]), np.zeros((E,), np.float32))
    return (states, actions, logps, rews, dones, vals, obs_of(ids[0])[0], np.float32(0.0))


def ippo_rollout(ag, key, part, T, E, IDS=None, CIDS=None, vec=True, k=0):
    """Every component of the experience tuple is a dictionary filled in another key order.  vec=False: the layout
    train_multi_agent_on_policy stores for a non-vectorised environment."""
    IDS = list(IDS or IPPO_IDS)
    CIDS = list(CIDS or IDS)
    if not vec:
        T, E = T * E, 1
    n = len(CIDS)
    ids = np.arange(n * T * E).reshape(n, T, E)
    row_of = {aid: ids[j] for j, aid in enumerate(CIDS)}
    exp = [_keyed(IDS, k + c, lambda aid: []) for c in range(6)] + [dict(), dict()]

    def obs_at(aid, t):
        o = obs_of(row_of[aid][t]) if aid in row_of else obs_of(range(E))
        return o if vec else o[0]

    for t in range(T):
        obs = _keyed(IDS, k + t, lambda aid: obs_at(aid, t))
        a, lp, _, v = ag.get_action(obs)
        for aid in IDS:
            stored = _like(a[aid], [part[i][1] for i in row_of[aid][t]], key) if aid in row_of else np.asarray(a[aid])
            exp[0][aid].append(obs[aid])
            exp[1][aid].append(stored if vec else stored[0])
            exp[2][aid].append(np.asarray(lp[aid]) if vec else np.asarray(lp[aid])[0])
            exp[3][aid].append(np.ones((E,), np.float32) if vec else 1.0)
            exp[4][aid].append(np.zeros((E,), np.float32))
            exp[5][aid].append(np.asarray(v[aid]) if vec else np.asarray(v[aid])[0])
    exp[6] = _keyed(IDS, k + 6, lambda aid: obs_at(aid, 0))
    exp[7] = _keyed(IDS, k + 7, lambda aid: np.zeros((E,), np.int8))
    return tuple(exp)


# --------------------------------------------------------------------------------------- Box
class BoxKernel:
    """Box(d): Normal(mu, 2^ks); cases are grouped by ks (log_std is one parameter of the actor)."""

    def __init__(self, d, seed, squash=False, evolved=False):
        self.key, self.d, self.seed, self.squash, self.evolved = ("box", (d,)), d, seed, squash, evolved
        self.shape = shape_name(self.key, squash, evolved=evolved)
        self.samples = []
        self.fails = []
        self.stats = {"actor_calls": 0, "ppo_calls": 0, "ippo_calls": 0, "rows": 0}

    def fail(self, level, path, bad, c, **extra):
        if self.evolved:
            extra["evolve"] = "cloned" if self.evolved == "cloned" else "mutated"
        for clause, detail in bad:
            self.fails.append(Failure(level, self.shape, path, clause, detail, c, extra))

    @staticmethod
    def groups(cases):
        g = {}
        for c in cases:
            g.setdefault(tuple(c["ks"]), []).append(c)
        return g

    def _ok(self, c):
        # squashed actors: stored actions tanh(u) with |u| <= 1.5 only (atanh well conditioned)
        return (not self.squash) or max(abs(x) for x in box_point(c)) <= 1.5

    def _eligible(self, cases):
        return [c for c in cases if self._ok(c)]

    def _set(self, actors, heads, ks, part, rot):
        for ac in actors:
            ac.head_net.log_std.data = torch.tensor([[k * LN2 for k in ks]], dtype=torch.float32)
        n = len(part)
        tab = torch.tensor([logits_of(c) for c in part], dtype=torch.float32)
        eps = torch.tensor([[e / 2.0 for e in part[(i + rot) % n]["e"]] for i in range(n)], dtype=torch.float32)
        for h in heads:
            h.table, h.eps = tab, eps
        # the point drawn for row i and its quadratic form (BoxQuadratic: Q = 16 |e|^2 / 128 at mu + std*eps)
        pts = []
        for i, c in enumerate(part):
            e2 = part[(i + rot) % n]["e"]
            u = [c["mu"][j] / 4.0 + (2.0 ** c["ks"][j]) * e2[j] / 2.0 for j in range(self.d)]
            pts.append((u, 16 * sum(x * x for x in e2)))
        return pts

    def run_actor(self, cases):
        actor = instrument(_ev(make_actor(self.key, squash=self.squash, seed=self.seed), self), Head())
        head = actor.head_net.wrapped.forward
        for ks, cs in sorted(self.groups(cases).items()):
            for k, part in enumerate(_batches(cs, [1, 4, 9, 32], self.seed)):
                pts = self._set([actor], [head], ks, part, rot=1 + k % 3)
                obs = torch.as_tensor(obs_of(range(len(part))))
                self.stats["actor_calls"] += 1
                try:
                    with torch.no_grad(), mock.patch.object(torch, "normal", scripted_normal):
                        a, lp, ent = actor(obs)
                except Exception as ex:
                    self.fail("actor", "forward", [(_raises(_exc(ex)), _exc(ex))], part[0], batch=len(part))
                    continue
                a, lp = a.numpy(), lp.numpy()
                ent = ent.numpy() if ent is not None else [None] * len(part)
                if lp.shape != (len(part),):
                    self.fail("actor", "forward", [("Shape", f"log_prob {lp.shape} for a batch of {len(part)}")], part[0])
                    continue
                for i, c in enumerate(part):
                    self.stats["rows"] += 1
                    self.fail("actor", "sample", check_box_row(c, a[i], lp[i], ent[i], u_want=pts[i][0], qn=pts[i][1], squash=self.squash,
                                                               path="sample"), c, batch=len(part), row=i)
                    if not self.samples and self.d == 2 and pts[i][1] > 0:
                        self.samples.append({"level": "actor", "shape": self.shape, "mu*4": c["mu"], "log2_std": c["ks"], "draw": pts[i][0],
                                             "spec": f"-{pts[i][1]}/128 - {c['kk']} ln2 - {self.d}/2 ln(2pi)" + (" - sum log(1-a^2+1e-6)" if self.squash else ""),
                                             "returned_action": a[i].tolist(), "reported_log_prob": float(lp[i])})
                # stored actions: the case's own grid point, against the distribution of this forward pass
                el = [i for i, c in enumerate(part) if self._ok(c)]
                stored = np.array([np.tanh(box_point(c)) if self.squash else box_point(c) for c in part], dtype=np.float32)
                try:
                    with torch.no_grad():
                        lp2 = actor.action_log_prob(torch.as_tensor(stored)).numpy()
                except Exception as ex:
                    self.fail("actor", "action_log_prob", [(_raises(_exc(ex)), _exc(ex))], part[0], batch=len(part))
                    continue
                for i in el:
                    c = part[i]
                    self.fail("actor", "eval", check_box_row(c, stored[i], lp2[i], None, u_want=box_point(c), qn=c["qn"], squash=self.squash,
                                                             path="eval"), c, batch=len(part), row=i)

    def run_ppo(self, cases):
        ag = _ev(make_ppo(self.key, squash=self.squash, seed=self.seed), self)
        head = Head()
        instrument(ag.actor, head)
        for ks, cs in sorted(self.groups(cases).items()):
            for k, part in enumerate(_batches(cs, [16, 3, 32], self.seed)):
                training = k % 3 != 2 or self.squash        # evaluation mode rescales squashed actions (C14's business)
                ag.set_training_mode(training)
                pts = self._set([ag.actor], [head], ks, part, rot=1 + k % 3)
                obs = obs_of(range(len(part)))
                self.stats["ppo_calls"] += 1
                try:
                    with mock.patch.object(torch, "normal", scripted_normal):
                        a, lp, ent, _ = ag.get_action(obs)
                except Exception as ex:
                    self.fail("PPO", "get_action", [(_raises(_exc(ex)), _exc(ex))], part[0], batch=len(part))
                    continue
                a, lp, ent = np.asarray(a), np.asarray(lp).reshape(-1), np.asarray(ent)
                if a.shape[0] != len(part) or lp.shape[0] != len(part):
                    self.fail("PPO", "get_action", [("Shape", f"action {a.shape}, log_prob {lp.shape} for {len(part)} observations")], part[0])
                    continue
                for i, c in enumerate(part):
                    self.stats["rows"] += 1
                    e_i = ent.reshape(-1)[i] if (not self.squash and ent.size == len(part)) else None
                    self.fail("PPO", "sample", check_box_row(c, a[i], lp[i], e_i, u_want=pts[i][0], qn=pts[i][1], squash=self.squash,
                                                             path="sample"), c, batch=len(part), row=i, training=training)
                # evaluate_actions on stored grid points (shape/dtype of what get_action returned)
                ag.set_training_mode(True)
                stored = np.array([np.tanh(box_point(c)) if self.squash else box_point(c) for c in part], dtype=np.float32)
                try:
                    with torch.no_grad(), mock.patch.object(torch, "normal", scripted_normal):
                        lp2, ent2, _ = ag.evaluate_actions(obs, torch.as_tensor(stored.reshape(a.shape)))
                    lp2 = lp2.numpy()
                except Exception as ex:
                    self.fail("PPO", "evaluate_actions", [(_raises(_exc(ex)), _exc(ex))], part[0], batch=len(part))
                    continue
                if lp2.shape != (len(part),):
                    self.fail("PPO", "evaluate_actions", [("Shape", f"log_prob {lp2.shape} for {len(part)} stored actions of shape {a.shape}")], part[0])
                    continue
                for i, c in enumerate(part):
                    if not self._ok(c):
                        continue
                    self.fail("PPO", "eval", check_box_row(c, stored[i], lp2[i], None, u_want=box_point(c), qn=c["qn"], squash=self.squash,
                                                           path="eval"), c, batch=len(part), row=i)
            self._learn_path("PPO", ag, [ag.actor], ks, cs, kidx=sum(abs(x) for x in ks) + len(ks))

    def run_ippo(self, cases, hetero=False):
        ag = _ev(make_ippo(self.key, squash=self.squash, seed=self.seed, hetero=hetero), self)
        level = "IPPO-hetero" if hetero else "IPPO"
        IDS, CIDS = ippo_ids(hetero), case_ids(hetero)
        n = len(CIDS)
        heads = []
        for ac in ag.actors:
            h = Head()
            instrument(ac, h)
            heads.append(h)
        case_actors = list(ag.actors)[:1] if hetero else list(ag.actors)
        case_heads = heads[:1] if hetero else heads
        if hetero:
            heads[1].table = torch.zeros((64, spaces.flatdim(other_space(self.key))), dtype=torch.float32)
        for ks, cs in sorted(self.groups(cases).items()):
            for k, part in enumerate(_batches(cs, [4 * n, n, 8 * n], self.seed)):
                part = _padn(part, n)
                E = len(part) // n
                ag.set_training_mode(True)
                pts = self._set(case_actors, case_heads, ks, part, rot=1 + k % 3)
                ids = np.arange(len(part)).reshape(n, E)
                row_of = {aid: ids[j] for j, aid in enumerate(CIDS)}
                obs = _keyed(IDS, k, lambda aid: obs_of(row_of[aid]) if aid in row_of else obs_of(range(E)))
                self.stats["ippo_calls"] += 1
                try:
                    with mock.patch.object(torch, "normal", scripted_normal):
                        a, lp, ent, _ = ag.get_action(obs)
                except Exception as ex:
                    self.fail(level, "get_action", [(_raises(_exc(ex)), _exc(ex))], part[0], batch=len(part))
                    continue
                for aid in IDS:
                    aj, lj = np.asarray(a[aid]), np.asarray(lp[aid]).reshape(-1)
                    if aj.shape[0] != E or lj.shape[0] != E:
                        self.fail(level, "get_action", [("Shape", f"{aid}: action {aj.shape}, log_prob {lj.shape} for {E} environments")], part[0])
                        continue
                    ej = np.asarray(ent[aid]).reshape(-1)
                    if aid not in row_of:
                        self.fail(level, "other-group", check_other_rows(self.key, aj, lj, ej) if ej.shape[0] == E else
                                  [("Shape", f"{aid}: entropy {ej.shape} for {E} environments")], part[0], agent=aid)
                        continue
                    for e in range(E):
                        r = row_of[aid][e]
                        c = part[r]
                        self.stats["rows"] += 1
                        self.fail(level, "sample", check_box_row(c, aj[e], lj[e], (ej[e] if not self.squash and ej.size == E else None),
                                                                  u_want=pts[r][0], qn=pts[r][1], squash=self.squash, path="sample"),
                                  c, agent=aid, env=e)
            self._learn_path(level, ag, case_actors, ks, cs, kidx=sum(abs(x) for x in ks) + len(ks))

    def _learn_path(self, level, ag, actors, ks, cs, kidx=0):
        """The first minibatch of learn() is evaluated under the grid's log_std (later ones after the optimizer has moved it):
        the roll-out layout (vectorised or not) and the minibatch size vary with the log_std group."""
        T, E = 8, 2
        hetero = level.endswith("hetero")
        IDS, CIDS = ippo_ids(hetero), case_ids(hetero)
        per_call = T * E * (1 if level == "PPO" else len(CIDS))
        cs = self._eligible(cs)
        if not cs:
            return
        part = [cs[(i * 7) % len(cs)] for i in range(per_call)]
        heads = [ac.head_net.wrapped.forward for ac in actors]
        self._set(actors, heads, ks, part, rot=1)
        rows = [(c, (np.tanh(box_point(c)) if self.squash else np.asarray(box_point(c))).astype(np.float32).tolist()) for c in part]
        ag.set_training_mode(True)
        kk = kidx + self.seed
        ag.batch_size = [64, 6, 7][kk % 3]
        vec = kk % 4 != 1
        layout = dict(batch_size=ag.batch_size, vectorised=vec)
        spies = [LogProbSpy(ac, tag=str(j)) for j, ac in enumerate(actors)]
        exc = ""
        try:
            seed_all(self.seed + 200)
            with mock.patch.object(torch, "normal", scripted_normal):
                exp = (ppo_rollout(ag, self.key, rows, T, E, vec=vec) if level == "PPO" else
                       ippo_rollout(ag, self.key, rows, T, E, IDS, CIDS, vec=vec, k=kk))
                self.stats[level.split("-")[0].lower() + "_calls"] += 1
                ag.learn(exp)
        except Exception as ex:
            exc = _exc(ex)
        finally:
            for s in spies:
                s.remove()
        if exc:
            self.fail(level, "learn", [(_raises(exc), exc)], part[0], rows=len(part), **layout)
        seen = 0
        for s in spies:
            for rec in s.recs:
                if rec["out"] is None:
                    continue
                ids = obs_ids(rec["obs"]).tolist()
                out = rec["out"].numpy()
                act = np.asarray(rec["action"])
                want_ls = np.array([k * LN2 for k in ks], dtype=np.float32)
                if rec["log_std"] is not None and not np.allclose(rec["log_std"].numpy().reshape(-1), want_ls, atol=1e-7):
                    continue            # a later minibatch: log_std has been moved by the optimizer, not on the grid any more
                if out.shape != (len(ids),) or act.reshape(len(act), -1).shape != (len(ids), self.d):
                    self.fail(level, "learn-eval", [("Shape", f"action_log_prob received actions {tuple(act.shape)} for {len(ids)} observations of a "
                                                              f"Box({self.d},) policy and returned {tuple(out.shape)}")], part[ids[0]], **layout)
                    seen += len(ids)
                    continue
                for i, rid in enumerate(ids):
                    c, ea = rows[rid]
                    seen += 1
                    self.stats["rows"] += 1
                    bad = []
                    if not np.array_equal(act[i].reshape(-1), np.asarray(ea, dtype=np.float32)):
                        bad.append(("StoredAction", f"row of observation {rid} is evaluated with action {act[i].tolist()}, stored {ea}"))
                    bad += check_box_row(c, act[i], out[i], None, u_want=box_point(c), qn=c["qn"], squash=self.squash, path="eval")
                    self.fail(level, "learn-eval", bad, c, action=ea, **layout)
        want_seen = min(ag.batch_size, len(part) // max(1, len(actors))) * len(actors)
        if seen < want_seen and not exc:
            self.fail(level, "learn-eval", [("Coverage", f"learn() re-evaluated {seen} stored rows on the first minibatch of each policy, "
                                                         f"{want_seen} expected")], part[0], **layout)


# ======================================================================================= history traces
class Ids:
    """Ids for observed objects; floats are identified up to a relative tolerance (numeric abstraction class)."""

    def __init__(self, tol=0.0):
        self.tol, self.keys, self.vals = tol, {}, []

    def key(self, k):
        if k not in self.keys:
            self.keys[k] = len(self.keys) + 1
        return self.keys[k]

    def value(self, x):
        x = float(x)
        if math.isnan(x) or math.isinf(x):
            return -1
        for i, v in enumerate(self.vals):
            if abs(x - v) <= self.tol * max(1.0, abs(v)):
                return i + 1
        self.vals.append(x)
        return len(self.vals)


def real_obs(i):
    """Observation number i for the unstubbed networks (content identifies the row)."""
    r = np.random.RandomState(1000 + int(i))
    v = r.uniform(-1.0, 1.0, size=(3,)).astype(np.float32)
    return v


class History:
    """Recorder of one trace."""

    def __init__(self, cfg, squash):
        self.cfg = dict(cfg, w0=0)
        self.ev = []
        self.wids, self.aids = Ids(), Ids()
        self.vids = Ids(1e-4 if squash else 1e-5)
        self.obs_index = {}
        self.squash = squash
        self.w = None
        self.floats = []

    def obs(self, ids):
        arr = np.stack([real_obs(i) for i in ids])
        for i, row in zip(ids, arr):
            self.obs_index[row.tobytes()] = int(i)
        return arr

    def obs_id(self, row):
        return self.obs_index.get(np.asarray(row, dtype=np.float32).tobytes(), 0)

    def _w(self, fp):
        wid = self.wids.key(fp)
        if self.w is None:
            self.cfg["w0"] = wid
        elif wid != self.w:
            self.ev.append({"op": "learn", "w": wid, "o": 0, "a": 0, "v": 0, "via": "", "exc": ""})
        self.w = wid
        return wid

    def well_conditioned(self, a):
        """Squashed policies: atanh of the stored action must be well conditioned in float32.  An action outside [-1, 1] can
        only be in the coordinates of the (non-unit) action space: it is judged after mapping it back to (-1, 1)."""
        if not self.squash:
            return True
        a = np.asarray(a, dtype=np.float64).reshape(-1)
        if np.max(np.abs(a)) > 1.0 and self.cfg.get("bounds") == "wide":
            a = 2.0 * (a + 2.0) / 8.0 - 1.0
        return float(np.max(np.abs(a))) <= 0.95

    def row(self, op, fp, oid, a, v, via):
        wid = self._w(fp)
        if not self.well_conditioned(a):
            return
        aid = self.aids.key(np.asarray(a, dtype=np.float32).reshape(-1).tobytes())
        self.floats.append(float(v))
        self.ev.append({"op": op, "w": wid, "o": int(oid), "a": aid, "v": self.vids.value(v), "via": via, "exc": ""})

    def exc(self, via, text):
        self.ev.append({"op": "exc", "w": self.w or 0, "o": 0, "a": 0, "v": 0, "via": via, "exc": text})

    def trace(self):
        self.cfg["values"] = [round(x, 6) for x in self.floats[:24]]
        return {"cfg": self.cfg, "ev": self.ev}


def _perturb(actor, seed):
    g = torch.Generator().manual_seed(seed)
    with torch.no_grad():
        for p in actor.parameters():
            p.add_(0.05 * torch.randn(p.shape, generator=g))


def history_actor(key, squash, seed):
    """The actor network itself: forward (Sample) / forward + action_log_prob(stored) (Eval) / weights perturbed (Learn)."""
    actor = instrument(make_actor(key, squash=squash, bounds="unit", seed=seed, std_init=(-1.0 if squash else 0.0)))
    h = History({"level": "actor", "shape": shape_name(key, squash), "squash": int(squash), "seed": seed}, squash)
    ids = [1, 2, 3, 4]
    obs = torch.as_tensor(h.obs(ids))
    seed_all(seed + 5)
    store = []

    def sample():
        with torch.no_grad():
            a, lp, _ = actor(obs)
        fp = fingerprint(actor)
        for i, o in enumerate(ids):
            h.row("sample", fp, o, a[i].numpy(), lp[i], "forward")
        return a.clone()

    def evaluate(a, perm):
        with torch.no_grad():
            actor(obs[perm])
            lp = actor.action_log_prob(a[perm])
        fp = fingerprint(actor)
        for j, i in enumerate(perm):
            h.row("eval", fp, ids[i], a[i].numpy(), lp[j], "action_log_prob")

    try:
        store.append(sample())
        evaluate(store[0], [0, 1, 2, 3])
        store.append(sample())
        evaluate(store[0], [2, 0, 3, 1])
        evaluate(store[1], [1, 0])
        _perturb(actor, seed)
        evaluate(store[0], [0, 1, 2, 3])
        store.append(sample())
        evaluate(store[0], [3, 2, 1, 0])
        evaluate(store[2], [0, 1, 2, 3])
    except Exception as ex:
        h.exc("actor", _exc(ex))
    return h.trace()


def _spy_rows(h, spies, via):
    for s in spies:
        for rec in s.recs:
            if rec["out"] is None:
                continue
            obs = np.asarray(rec["obs"])
            out = rec["out"].numpy().reshape(-1)
            act = np.asarray(rec["action"])
            n = obs.shape[0]
            if out.shape[0] != n or act.shape[0] != n:
                h.exc(via, f"ShapeError: action_log_prob received actions {tuple(act.shape)} for {n} observations and returned {tuple(rec['out'].shape)}")
                continue
            for i in range(n):
                h.row("eval", rec["w"], h.obs_id(obs[i]), act[i], out[i], via)


def history_ppo(key, squash, bounds, seed, batch_size):
    """PPO: get_action (Sample), evaluate_actions on stored pairs (Eval), learn on the stored roll-out (Eval through the spy,
    Learn when the optimizer moves the weights)."""
    # batch size 4: the networks are handed over ready-made and (Box) a non-zero action_std_init goes through the constructors
    explicit = batch_size == 4
    std_init = -1.0 if squash else (0.5 if explicit and key[0] == "box" else 0.0)
    ag = make_ppo(key, squash=squash, bounds=bounds, seed=seed, batch_size=batch_size, std_init=std_init, explicit=explicit)
    instrument(ag.actor)
    ag.set_training_mode(True)
    h = History({"level": "PPO", "shape": shape_name(key, squash, bounds), "squash": int(squash), "seed": seed, "batch_size": batch_size,
                 "bounds": bounds, "explicit_networks": int(explicit), "action_std_init": std_init}, squash)
    T, E = 4, 2
    seed_all(seed + 6)
    roll = []
    try:
        def sample(t):
            ids = [t * E + e + 1 for e in range(E)]
            obs = h.obs(ids)
            a, lp, _, v = ag.get_action(obs)
            fp = fingerprint(ag.actor)
            if np.asarray(lp).reshape(-1).shape[0] != E or np.asarray(a).shape[0] != E:
                h.exc("get_action", f"ShapeError: action {np.asarray(a).shape}, log_prob {np.asarray(lp).shape} for {E} observations")
            else:
                for e in range(E):
                    h.row("sample", fp, ids[e], a[e], np.asarray(lp).reshape(-1)[e], "get_action")
            return (ids, obs, a, lp, v)

        def evaluate(step):
            ids, obs, a, _, _ = step
            with torch.no_grad():
                lp, _, _ = ag.evaluate_actions(obs, torch.as_tensor(a))
            fp = fingerprint(ag.actor)
            lp = lp.numpy()
            if lp.shape != (E,):
                h.exc("evaluate_actions", f"ShapeError: log_prob {lp.shape} for {E} stored actions of shape {np.asarray(a).shape}")
                return
            for e in range(E):
                h.row("eval", fp, ids[e], a[e], lp[e], "evaluate_actions")

        for t in range(T):
            roll.append(sample(t))
            if t == 1:
                evaluate(roll[0])
        evaluate(roll[0])
        evaluate(roll[3])
        exp = ([r[1] for r in roll], [r[2] for r in roll], [r[3] for r in roll], [np.ones((E,), np.float32)] * T,
               [np.zeros((E,), np.float32)] * T, [r[4] for r in roll], h.obs([99, 98]), np.zeros((E,), np.float32))
        spy = LogProbSpy(ag.actor)
        try:
            ag.learn(exp)
        finally:
            spy.remove()
            _spy_rows(h, [spy], "learn")
        evaluate(roll[1])
        evaluate(roll[1])
    except Exception as ex:
        h.exc("PPO", _exc(ex))
    return h.trace()


def history_ippo(key, squash, bounds, seed, batch_size):
    explicit = batch_size == 4
    std_init = -1.0 if squash else (0.5 if explicit and key[0] == "box" else 0.0)
    ag = make_ippo(key, squash=squash, bounds=bounds, seed=seed, batch_size=batch_size, std_init=std_init, explicit=explicit)
    for ac in ag.actors:
        instrument(ac)
    ag.set_training_mode(True)
    T, E = 4, 2
    traces = []
    hs = [History({"level": "IPPO", "shape": shape_name(key, squash, bounds), "squash": int(squash), "seed": seed, "batch_size": batch_size,
                   "policy": j, "bounds": bounds}, squash) for j in range(len(ag.actors))]
    group = {"agent_0": 0, "agent_1": 0, "other_0": 1}
    seed_all(seed + 7)
    try:
        # every dictionary is filled in another key order
        exp = [_keyed(IPPO_IDS, seed + c, lambda aid: []) for c in range(6)] + [dict(), dict()]
        for t in range(T):
            ids = {aid: [100 * (j + 1) + t * E + e + 1 for e in range(E)] for j, aid in enumerate(IPPO_IDS)}
            obs = _keyed(IPPO_IDS, seed + t, lambda aid: hs[group[aid]].obs(ids[aid]))
            a, lp, _, v = ag.get_action(obs)
            for aid in IPPO_IDS:
                hh = hs[group[aid]]
                fp = fingerprint(ag.actors[group[aid]])
                lpa = np.asarray(lp[aid]).reshape(-1)
                if lpa.shape[0] != E or np.asarray(a[aid]).shape[0] != E:
                    hh.exc("get_action", f"ShapeError: {aid}: action {np.asarray(a[aid]).shape}, log_prob {np.asarray(lp[aid]).shape}")
                else:
                    for e in range(E):
                        hh.row("sample", fp, ids[aid][e], a[aid][e], lpa[e], "get_action")
                exp[0][aid].append(obs[aid])
                exp[1][aid].append(a[aid])
                exp[2][aid].append(lp[aid])
                exp[3][aid].append(np.ones((E,), np.float32))
                exp[4][aid].append(np.zeros((E,), np.float32))
                exp[5][aid].append(v[aid])
        exp[6] = _keyed(IPPO_IDS, seed + 6, lambda aid: hs[group[aid]].obs([900 + IPPO_IDS.index(aid), 950 + IPPO_IDS.index(aid)]))
        exp[7] = _keyed(IPPO_IDS, seed + 7, lambda aid: np.zeros((E,), np.int8))
        spies = [LogProbSpy(ac) for ac in ag.actors]
        try:
            ag.learn(tuple(exp))
        finally:
            for hh, s in zip(hs, spies):
                s.remove()
                _spy_rows(hh, [s], "learn")
    except Exception as ex:
        for hh in hs:
            hh.exc("IPPO", _exc(ex))
    return [hh.trace() for hh in hs]
