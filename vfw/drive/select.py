"""Driver for C05: real TournamentSelection on populations of real agents, generation after generation."""
from __future__ import annotations

import copy
from unittest import mock

import numpy as np
import torch

from .. import zoo
from ..project import agent as proj
from . import evo


def _view(agent, algo):
    sn = proj.snapshot(agent)
    v = {"hp": sn["hp"], "nets": {k: (d["arch"], d["w"]) for k, d in sn["nets"].items()},
         "opts": {k: (d["state"], d["lrs"], d["coherent"]) for k, d in sn["opts"].items()},
         "steps": sn["steps"], "scores": sn["scores"], "fitness": sn["fitness"], "mut": sn["mut"], "aux": sn["aux"],
         "greedy": evo.greedy_hash(agent, algo)}
    return v, sn


def run(algo, n_pop, k, n_new, elitism, W, fit_hist, generations, seed=0):
    """fit_hist: list (per agent) of integer score lists for the first generation; later generations append
    seeded random integer scores. Returns trace for EvoSelect_Trace."""
    from agilerl.hpo.tournament import TournamentSelection

    torch.set_num_threads(1)
    rng = np.random.RandomState(seed)
    pop = []
    # indices of the first population: in order, reversed, or sparse and unordered (a population sorted by fitness or merged
    # from two runs) -- the position in the list carries no meaning
    base = [list(range(n_pop)), list(range(n_pop))[::-1], [10, 11, 3, 9, 0, 7, 5][:n_pop]][seed % 3]
    for i in range(n_pop):
        a = zoo.make_agent(algo, "vector", seed=100 + seed * 10 + i, index=base[i])
        zoo.learn(a, algo, i + 1)              # distinct weights + non-trivial optimizer state
        a.fitness = [float(x) for x in fit_hist[i]]
        pop.append(a)
    ts = TournamentSelection(tournament_size=k, elitism=elitism, population_size=n_new, eval_loop=W)
    ev = []
    for g in range(generations):
        e = {"op": "select", "exc": "", "k": k, "n": n_new, "elitism": bool(elitism), "W": W,
             "idxs": [int(a.index) for a in pop], "fit": [[int(round(x)) for x in a.fitness] for a in pop],
             "draws": [], "sel": [], "elite": {"parents": [], "idx": 0, "faithful": False}, "old_untouched": False, "shared": []}
        before = [_view(a, algo) for a in pop]
        pol = pop[0].registry.policy
        wkey = [json_key(b[0]["nets"][pol]) for b in before]
        shared_names = {n for g in pop[0].registry.groups if g.shared is not None
                        for n in ([g.shared] if isinstance(g.shared, str) else g.shared)}

        def same(v, b):
            """faithful copy up to the weights of target / shared networks (their semantics is C01 / C08)"""
            if any(v[k] != b[k] for k in ("hp", "opts", "steps", "scores", "fitness", "mut", "aux", "greedy")):
                return False
            return all(v["nets"][n] == b["nets"][n] or (n in shared_names and v["nets"][n][0] == b["nets"][n][0]) for n in b["nets"])
        draws = []
        real_randint = np.random.randint

        def logging_randint(*a, **kw):
            r = real_randint(*a, **kw)
            draws.append([int(x) + 1 for x in np.atleast_1d(r)])
            return r
        np.random.seed(seed * 1000 + g)
        try:
            with mock.patch.object(np.random, "randint", logging_randint):
                elite, new_pop = ts.select(pop)
        except Exception as ex:
            e["exc"] = f"{type(ex).__name__}: {ex}"[:200]
            ev.append(e)
            break
        e["draws"] = draws
        after = [_view(a, algo) for a in pop]
        e["old_untouched"] = all(b[0] == a[0] for b, a in zip(before, after))

        def parent_of(agent):
            v, sn = _view(agent, algo)
            key = json_key(v["nets"][pol])
            cands = [i for i, wk in enumerate(wkey) if wk == key and same(v, before[i][0])]
            return cands, v, sn
        pe, ve, sne = parent_of(elite)
        pe_idx = [i for i in pe if pop[i].index == elite.index] or pe        # the elite keeps its parent's index
        e["elite"] = {"parents": [i + 1 for i in pe_idx], "idx": int(elite.index), "faithful": len(pe) > 0}
        ptrs = [("old", i, b[1]["ptrs"]) for i, b in enumerate(after)] + [("elite", 0, sne["ptrs"])]
        for j, a in enumerate(new_pop):
            pj, vj, snj = parent_of(a)
            e["sel"].append({"parents": [i + 1 for i in pj], "idx": int(a.index), "faithful": len(pj) > 0})
            ptrs.append(("new", j, snj["ptrs"]))
        for x in range(len(ptrs)):
            for y in range(x + 1, len(ptrs)):
                inter = ptrs[x][2] & ptrs[y][2]
                if inter:
                    e["shared"].append({"a": f"{ptrs[x][0]}{ptrs[x][1]}", "b": f"{ptrs[y][0]}{ptrs[y][1]}", "what": sorted({t[0] for t in inter})})
        ev.append(e)
        # next generation: evaluate (append integer scores), sometimes train
        pop = new_pop if (seed + g) % 2 == 0 else new_pop[::-1]       # every other generation handed on in another order
        for a in pop:
            a.fitness.append(float(rng.randint(-2, 4)))
        if g % 2 == 0:
            zoo.learn(pop[rng.randint(len(pop))], algo, 20 + g)
    return {"cfg": {"algo": algo, "n_pop": n_pop, "k": k, "n": n_new, "elitism": bool(elitism), "W": W}, "ev": ev}


def json_key(x):
    import json
    return json.dumps(x, sort_keys=True, default=str)
