"""Driver for C05: real TournamentSelection on populations of real agents, generation after generation."""
from __future__ import annotations

import copy
from unittest import mock

import numpy as np
import torch

from .. import zoo
from ..project import agent as proj
from . import evo


def _view(agent, algo):
    sn = proj.snapshot(agent)
    v = {"hp": sn["hp"], "nets": {k: (d["arch"], d["w"]) for k, d in sn["nets"].items()},
         "opts": {k: (d["state"], d["lrs"], d["coherent"]) for k, d in sn["opts"].items()},
         "steps": sn["steps"], "scores": sn["scores"], "fitness": sn["fitness"], "mut": sn["mut"], "aux": sn["aux"],
         "greedy": evo.greedy_hash(agent, algo)}
    return v, sn


class _NoMutation:
    """stub *input* of tournament_selection_and_mutation: a Mutations object that leaves the population as it is"""

    def mutation(self, population, pre_training_mut=False):
        return population


def _score(units, fscale, ftype, pos):
    """fitness value units / fscale in the container element type a training loop may produce"""
    x = units / fscale
    t = ftype if ftype != "mixed" else ("float", "np64", "np32", "int")[pos % 4]
    if t == "np64":
        return np.float64(x)
    if t == "np32":
        return np.float32(x)                    # exact: dyadic with few bits
    if t == "int" and float(x).is_integer():
        return int(x)
    return float(x)


def run(algo, n_pop, k, n_new, elitism, W, fit_hist, generations, seed=0, opts=None):
    """fit_hist: list (per agent) of integer score lists (in units of 1 / fscale) for the first generation; later generations
    append seeded random scores. Returns trace for EvoSelect_Trace (fitness in the trace in the same integer units).
    opts (all optional): fscale (1 | 2 | 4 | ...: scores are multiples of 1/fscale), foffset (added to every score, in units),
    ftype (float | np64 | np32 | int | mixed: element type of the fitness lists), hetero (members differ in learning rate,
    batch size, hidden size, steps, scores, mut), via ("select" | "utils": through agilerl.utils.utils.
    tournament_selection_and_mutation with an identity mutation stub), save_elite (utils route only)."""
    from agilerl.hpo.tournament import TournamentSelection

    opts = dict(opts or {})
    fscale, foffset, ftype = int(opts.get("fscale", 1)), int(opts.get("foffset", 0)), opts.get("ftype", "float")
    hetero, via, save_elite = bool(opts.get("hetero", False)), opts.get("via", "select"), bool(opts.get("save_elite", False))
    torch.set_num_threads(1)
    rng = np.random.RandomState(seed)
    pop = []
    # indices of the first population: in order, reversed, or sparse and unordered (a population sorted by fitness or merged
    # from two runs) -- the position in the list carries no meaning
    base = [list(range(n_pop)), list(range(n_pop))[::-1], [10, 11, 3, 9, 0, 7, 5][:n_pop]][seed % 3]
    for i in range(n_pop):
        kw = {}
        if hetero:                             # a population after hyperparameter / architecture mutations: no two members alike
            kw = {"lr": 1e-3 * (i + 1), "lr_actor": 1e-3 * (i + 1), "lr_critic": 2e-3 * (i + 1),
                  "net_config": {"encoder_config": {"hidden_size": [16 + 8 * (i % 3)]}, "head_config": {"hidden_size": [16 + 8 * ((i + 1) % 2)]}}}
        a = zoo.make_agent(algo, "vector", seed=100 + seed * 10 + i, index=base[i], **kw)
        if hetero:
            a.batch_size = (8, 4, 16)[i % 3]
        zoo.learn(a, algo, i + 1)              # distinct weights + non-trivial optimizer state
        if hetero:
            a.steps = [0] * (1 + i % 2) + [100 * (i + 1)]
            a.scores = [float(i - 1)] * (i % 3)
            a.mut = (None, "lr", "arch", "param", "act")[i % 5]
        a.fitness = [_score(x + foffset, fscale, ftype, i + q) for q, x in enumerate(fit_hist[i])]
        pop.append(a)
    ts = TournamentSelection(tournament_size=k, elitism=elitism, population_size=n_new, eval_loop=W)
    ev = []
    for g in range(generations):
        e = {"op": "select", "exc": "", "k": k, "n": n_new, "elitism": bool(elitism), "W": W,
             "idxs": [int(a.index) for a in pop], "fit": [[int(round(float(x) * fscale)) for x in a.fitness] for a in pop],
             "draws": [], "sel": [], "elite": {"parents": [], "idx": 0, "faithful": False}, "old_untouched": False, "shared": [],
             "via": via, "wiring": True, "wiring_note": ""}
        assert all(abs(float(x) * fscale - u) < 1e-9 for a, us in zip(pop, e["fit"]) for x, u in zip(a.fitness, us)), "fitness not on the grid"
        before = [_view(a, algo) for a in pop]
        pol = pop[0].registry.policy
        wkey = [json_key(b[0]["nets"][pol]) for b in before]
        shared_names = {n for g in pop[0].registry.groups if g.shared is not None
                        for n in ([g.shared] if isinstance(g.shared, str) else g.shared)}

        def same(v, b):
            """faithful copy up to the weights of target / shared networks (their semantics is C01 / C08)"""
            if any(v[k] != b[k] for k in ("hp", "opts", "steps", "scores", "fitness", "mut", "aux", "greedy")):
                return False
            return all(v["nets"][n] == b["nets"][n] or (n in shared_names and v["nets"][n][0] == b["nets"][n][0]) for n in b["nets"])
        draws = []
        real_randint = np.random.randint

        def logging_randint(*a, **kw):
            r = real_randint(*a, **kw)
            draws.append([int(x) + 1 for x in np.atleast_1d(r)])
            return r
        np.random.seed(seed * 1000 + g)
        try:
            with mock.patch.object(np.random, "randint", logging_randint):
                if via == "utils":
                    elite, new_pop = _via_utils(ts, pop, algo, save_elite, e, seed + g)
                else:
                    elite, new_pop = ts.select(pop)
        except Exception as ex:
            e["exc"] = f"{type(ex).__name__}: {ex}"[:200]
            ev.append(e)
            break
        e["draws"] = draws
        after = [_view(a, algo) for a in pop]
        e["old_untouched"] = all(b[0] == a[0] for b, a in zip(before, after))

        def parent_of(agent):
            v, sn = _view(agent, algo)
            key = json_key(v["nets"][pol])
            cands = [i for i, wk in enumerate(wkey) if wk == key and same(v, before[i][0])]
            return cands, v, sn
        pe, ve, sne = parent_of(elite)
        pe_idx = [i for i in pe if pop[i].index == elite.index] or pe        # the elite keeps its parent's index
        e["elite"] = {"parents": [i + 1 for i in pe_idx], "idx": int(elite.index), "faithful": len(pe) > 0}
        ptrs = [("old", i, b[1]["ptrs"]) for i, b in enumerate(after)] + [("elite", 0, sne["ptrs"])]
        for j, a in enumerate(new_pop):
            pj, vj, snj = parent_of(a)
            e["sel"].append({"parents": [i + 1 for i in pj], "idx": int(a.index), "faithful": len(pj) > 0})
            ptrs.append(("new", j, snj["ptrs"]))
        for x in range(len(ptrs)):
            for y in range(x + 1, len(ptrs)):
                inter = ptrs[x][2] & ptrs[y][2]
                if inter:
                    e["shared"].append({"a": f"{ptrs[x][0]}{ptrs[x][1]}", "b": f"{ptrs[y][0]}{ptrs[y][1]}", "what": sorted({t[0] for t in inter})})
        ev.append(e)
        # next generation: evaluate (append integer scores), sometimes train
        pop = new_pop if (seed + g) % 2 == 0 else new_pop[::-1]       # every other generation handed on in another order
        for q, a in enumerate(pop):
            u = int(rng.randint(-2, 4)) * fscale + (int(rng.randint(0, fscale)) if fscale > 1 else 0)
            a.fitness.append(_score(u + foffset, fscale, ftype, g + q))
        if g % 2 == 0:
            zoo.learn(pop[rng.randint(len(pop))], algo, 20 + g)
    cfg = {"algo": algo, "n_pop": n_pop, "k": k, "n": n_new, "elitism": bool(elitism), "W": W}
    if opts:
        cfg["opts"] = {x: opts[x] for x in sorted(opts)}
    return {"cfg": cfg, "ev": ev}


def _via_utils(ts, pop, algo, save_elite, e, salt):
    """The training loops' helper: real tournament_selection_and_mutation with the real TournamentSelection and an identity
    mutation stub; ts.select is observed (not altered). Records in e["wiring"] whether the helper handed the population to
    select as it was, returned select's generation member by member, and (save_elite) saved the elite select returned."""
    import os
    import shutil
    import tempfile

    import dill
    from agilerl.utils.utils import tournament_selection_and_mutation

    got = {}
    real_select = ts.select

    def spy(p):
        got["arg"] = p
        got["ret"] = real_select(p)
        return got["ret"]
    tmp = tempfile.mkdtemp(prefix="vfw-c05-")
    path = os.path.join(tmp, f"elite_{salt}.pt")
    try:
        with mock.patch.object(ts, "select", spy):
            kw = {"elite_path": path, "save_elite": True} if save_elite else {}
            if salt % 2:
                kw["algo"] = algo
            out = tournament_selection_and_mutation(pop, ts, _NoMutation(), "vfw-env", **kw)
        notes = []
        if "ret" not in got:
            raise RuntimeError("tournament_selection_and_mutation did not call tournament.select")
        elite, new_pop = got["ret"]
        if [id(a) for a in got["arg"]] != [id(a) for a in pop]:
            notes.append("select was handed other agents / another order than the population")
        if [id(a) for a in out] != [id(a) for a in new_pop]:
            notes.append("the returned population is not select's generation (members / order)")
        if save_elite:
            if not os.path.exists(path):
                notes.append("elite checkpoint not written at elite_path")
            else:
                ck = torch.load(path, pickle_module=dill, weights_only=False)
                if ck.get("index") != elite.index or [float(x) for x in ck.get("fitness", [])] != [float(x) for x in elite.fitness]:
                    notes.append("the saved elite checkpoint is not the elite's")
        e["wiring"], e["wiring_note"] = not notes, "; ".join(notes)
        return elite, list(out)
    finally:
        shutil.rmtree(tmp, ignore_errors=True)


def json_key(x):
    import json
    return json.dumps(x, sort_keys=True, default=str)
