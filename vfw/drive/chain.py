"""Driver of the C04 chain stage (specs/CloneChain*.tla): clone-and-mutate chains of real evolvable modules, observed from
the outside.  After every operation ALL live objects are measured: architecture (printed layer structure + parameter shapes,
interned to a small integer), function (outputs on fixed probe batches in evaluation mode, bit pattern interned), and the
same two on a fresh clone() of each object (= what its constructor description rebuilds)."""
from __future__ import annotations

import random
from typing import List

import numpy as np
import torch
import torch.nn as nn

NSLOTS = 4
FAMILIES = ("make_mlp", "make_cnn", "make_mlp_ln", "mlp", "cnn", "qnet", "multi")


class _Net(nn.Module):
    def __init__(self, ln=False):
        super().__init__()
        self.fc1 = nn.Linear(6, 64)
        self.fc2 = nn.Linear(64, 64)
        self.fc3 = nn.Linear(64, 3)
        self.relu = nn.ReLU()
        self.tanh = nn.Tanh()
        self.ln = nn.LayerNorm(64) if ln else None

    def forward(self, x):
        h = self.fc1(x)
        if self.ln is not None:
            h = self.ln(h)
        return self.tanh(self.fc3(self.relu(self.fc2(self.relu(h)))))


class _CNet(nn.Module):
    def __init__(self):
        super().__init__()
        self.c1 = nn.Conv2d(3, 32, 3)
        self.c2 = nn.Conv2d(32, 32, 3)
        self.relu = nn.ReLU()
        self.fl = nn.Flatten()
        self.f1 = nn.Linear(32 * 12 * 12, 64)
        self.f2 = nn.Linear(64, 2)

    def forward(self, x):
        return self.f2(self.relu(self.f1(self.fl(self.relu(self.c2(self.relu(self.c1(x))))))))


def make(family: str):
    """-> (module, probe batches)"""
    from gymnasium import spaces
    g = torch.Generator().manual_seed(11)
    vec = [torch.randn(b, 6, generator=g) for b in (1, 3)]
    img = [torch.randn(b, 3, 16, 16, generator=g) for b in (1, 2)]
    if family in ("make_mlp", "make_mlp_ln"):
        from agilerl.wrappers.make_evolvable import MakeEvolvable
        return MakeEvolvable(_Net(ln=family.endswith("_ln")), input_tensor=torch.randn(1, 6, generator=g)), vec
    if family == "make_cnn":
        from agilerl.wrappers.make_evolvable import MakeEvolvable
        return MakeEvolvable(_CNet(), input_tensor=torch.randn(1, 3, 16, 16, generator=g)), img
    if family == "mlp":
        from agilerl.modules import EvolvableMLP
        return EvolvableMLP(num_inputs=6, num_outputs=3, hidden_size=[64, 64], max_hidden_layers=3, max_mlp_nodes=128), vec
    if family == "cnn":
        from agilerl.modules import EvolvableCNN
        return EvolvableCNN(input_shape=[3, 16, 16], num_outputs=4, channel_size=[16, 16], kernel_size=[3, 3], stride_size=[1, 1],
                            max_hidden_layers=3, max_channel_size=48), img
    if family == "qnet":
        from agilerl.networks.q_networks import QNetwork
        return QNetwork(observation_space=spaces.Box(-1, 1, (6,), dtype=np.float32), action_space=spaces.Discrete(3)), vec
    if family == "multi":
        from agilerl.modules import EvolvableMultiInput
        sp = spaces.Dict({"img": spaces.Box(0, 1, (3, 16, 16), dtype=np.float32), "vec": spaces.Box(-1, 1, (6,), dtype=np.float32)})
        m = EvolvableMultiInput(observation_space=sp, num_outputs=4, latent_dim=16, vector_space_mlp=True,
                                cnn_config={"channel_size": [16], "kernel_size": [3], "stride_size": [1]},
                                mlp_config={"hidden_size": [32]})
        return m, [{"img": i.abs().clamp(0, 1), "vec": v.clamp(-1, 1)} for i, v in zip(img, [torch.randn(b, 6, generator=g) for b in (1, 2)])]
    raise ValueError(family)


def randomise(m, seed: int):
    g = torch.Generator().manual_seed(seed)
    with torch.no_grad():
        for p in m.parameters():
            p.add_(0.3 * torch.randn(p.shape, generator=g))


class Intern:
    def __init__(self):
        self.t = {}

    def __call__(self, key) -> int:
        return self.t.setdefault(key, len(self.t) + 1)


def arch_key(m) -> str:
    return repr(m) + "|" + repr(sorted((n, tuple(p.shape)) for n, p in m.named_parameters()))


def fn_key(m, probes) -> bytes:
    was = m.training
    m.eval()
    try:
        outs = []
        with torch.no_grad():
            for x in probes:
                y = m({k: v.clone() for k, v in x.items()} if isinstance(x, dict) else x.clone())
                ys = y if isinstance(y, (tuple, list)) else [y]
                outs.extend(t.detach().cpu().contiguous().numpy().tobytes() + repr(tuple(t.shape)).encode() for t in ys)
        return b"|".join(outs)
    finally:
        m.train(was)


# explicit arguments that cannot be applied (beyond the hard limits): the architecture has to stay as it is
NOOP_CALLS = {
    "make_mlp": [("add_mlp_node", dict(hidden_layer=1, numb_new_nodes=100_000)), ("remove_mlp_node", dict(hidden_layer=0, numb_new_nodes=100_000))],
    "make_mlp_ln": [("add_mlp_node", dict(hidden_layer=0, numb_new_nodes=100_000))],
    "make_cnn": [("add_mlp_node", dict(hidden_layer=0, numb_new_nodes=100_000)), ("add_cnn_channel", dict(hidden_layer=0, numb_new_channels=100_000))],
    "mlp": [("add_node", dict(hidden_layer=0, numb_new_nodes=100_000))],
    "cnn": [("add_channel", dict(hidden_layer=0, numb_new_channels=100_000))],
}


def observe(objs, probes, ia: Intern, ifn: Intern) -> dict:
    alive, arch, fn, carch, cfn = [], [], [], [], []
    for m in objs:
        alive.append(m is not None)
        if m is None:
            arch.append(0), fn.append(0), carch.append(0), cfn.append(0)
            continue
        arch.append(ia(arch_key(m)))
        fn.append(ifn(fn_key(m, probes)))
        c = m.clone()
        carch.append(ia(arch_key(c)))
        cfn.append(ifn(fn_key(c, probes)))
    return {"alive": alive, "arch": arch, "fn": fn, "carch": carch, "cfn": cfn}


def run(family: str, nops: int, seed: int) -> dict:
    """one seeded chain on `family`; returns a trace for CloneChain_Trace"""
    torch.set_num_threads(1)
    rnd = random.Random(seed)
    np.random.seed(seed % (2 ** 31))
    torch.manual_seed(seed)
    m0, probes = make(family)
    randomise(m0, seed)
    objs: List = [m0] + [None] * (NSLOTS - 1)
    ia, ifn = Intern(), Intern()
    o0 = observe(objs, probes, ia, ifn)
    cfg = {"family": family, "seed": seed, "alive0": o0["alive"], "arch0": o0["arch"], "fn0": o0["fn"]}
    ev = []
    for _ in range(nops):
        live = [i for i, m in enumerate(objs) if m is not None]
        free = [i for i, m in enumerate(objs) if m is None]
        x = rnd.random()
        e = {"exc": "", "method": "", "a": 0, "b": 0}
        try:
            if free and (x < 0.3 or len(live) == 1):
                a, b = rnd.choice(live), free[0]
                e.update(op="clone", a=a + 1, b=b + 1)
                objs[b] = objs[a].clone()
            elif x < 0.9 or len(live) == 1:
                a = rnd.choice(live)
                m = objs[a]
                noops = NOOP_CALLS.get(family, [])
                if noops and rnd.random() < 0.3:
                    name, kw = rnd.choice(noops)
                    e.update(op="mutate", a=a + 1, b=a + 1, method=name + "(beyond the limit)")
                    getattr(m, name)(**kw)
                else:
                    name = rnd.choice(sorted(m.mutation_methods))
                    e.update(op="mutate", a=a + 1, b=a + 1, method=name)
                    m.get_mutation_methods()[name]()
            else:
                a = rnd.choice([i for i in live if i != 0])
                e.update(op="drop", a=a + 1, b=a + 1)
                objs[a] = None
            e.update(observe(objs, probes, ia, ifn))
        except Exception as ex:                                   # the real code raised: logged, the trace ends here
            e["exc"] = f"{type(ex).__name__}: {ex}"[:200]
            e.setdefault("op", "mutate")
            z = [0] * NSLOTS
            e.update({"alive": [m is not None for m in objs], "arch": z, "fn": z, "carch": z, "cfn": z})
            ev.append(e)
            break
        ev.append(e)
    return {"cfg": cfg, "ev": ev}


def run_job(job):
    return run(*job)
