"""Driver for the minibatch clause of C17: run the real PPO / IPPO learn() on a rollout, read the flattened
rows and every minibatch through the guarded hooks and turn them into a trace for Rows_Trace."""
from __future__ import annotations

import numpy as np
import torch

from .. import zoo
from ..project.agent import Ids, _h


def _row_hash(x, i):
    if isinstance(x, dict):
        return _h(*[_row_hash(v, i) for k, v in sorted(x.items())])
    if isinstance(x, (tuple, list)):
        return _h(*[_row_hash(v, i) for v in x])
    t = x[i]
    return _h(t if isinstance(t, torch.Tensor) else torch.as_tensor(np.asarray(t)))


def _nrows(x):
    if isinstance(x, dict):
        return _nrows(next(iter(x.values())))
    if isinstance(x, (tuple, list)):
        return _nrows(x[0])
    return len(x)


def run(algo, family, batch_size, update_epochs, seed):
    from agilerl.utils import verif_hooks
    torch.set_num_threads(1)
    agent = zoo.make_agent(algo, family, seed=seed)
    agent.batch_size = batch_size
    agent.update_epochs = update_epochs
    verif_hooks.drain()
    ids = Ids()
    ev = []
    exc = ""
    try:
        zoo.learn(agent, algo, seed % 7 + 1)
    except Exception as ex:
        exc = f"{type(ex).__name__}: {ex}"[:200]
    recs = verif_hooks.drain()
    pre = "ppo" if algo == "PPO" else "ippo"
    cur = None
    for name, f in recs:
        if name == f"{pre}.rows":
            exps = f["experiences"]
            n = _nrows(exps[4])
            rows = [[ids(k, _row_hash(exps[k], i)) for k in range(6)] for i in range(n)]
            ev.append({"op": "flat", "exc": "", "rows": rows})
            cur = True
        elif name == f"{pre}.minibatch" and cur:
            b = f["batch"]
            idxs = [int(i) for i in np.asarray(f["idxs"]).reshape(-1)]
            rows = [[ids(k, _row_hash(b[k], i)) for k in range(6)] for i in range(len(idxs))]
            ev.append({"op": "mb", "idxs": idxs, "rows": rows})
    if exc:
        ev.append({"op": "flat", "exc": exc, "rows": []})
    return {"cfg": {"algo": algo, "family": family, "batch_size": batch_size, "epochs": update_epochs}, "ev": ev}
