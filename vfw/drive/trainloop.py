"""Driver for C20: the REAL train_* functions of agilerl/training on real tiny agents, real buffers, real
TournamentSelection / Mutations and instrumented probe environments.  Nothing of the code under test is
replaced: observation happens through

  * probe environments written here that count reset / step calls (vector level: one call of the vector
    environment's step = num_envs environment steps),
  * class-level wrappers (unittest.mock.patch.object) around get_action / learn / test / clone /
    save_checkpoint of the agent class, which call the original method and only log,
  * instance-level wrappers around tournament.select and mutation.mutation, which call the original.

Environment steps are attributed to the agent that called get_action last outside test(); lineage
(parent -> child) comes from the clone log.  One trace per run (specs/TrainLoop_Trace.tla):

  init    k, rule ("any" | "sum"), max_steps, elitism, mutate_elite, target, steps, idxs, fitlen
  gen     per slot: d (environment steps taken in this generation's rollout), steps (= agent.steps[-1]),
          fitlen (= len(agent.fitness)), ntest, idx, score (dense rank of mean(fitness[-eval_loop:])),
          learn_ok (every learn() call was made with len(memory) >= batch_size), learn_exc
  sel     parents (1-based position in the old population of each new member's ancestor), idxs, steps,
          fitlen, elite_same (member 1 after mutation is fingerprint-equal to its parent before selection)
  ret     size, idxs, steps, fitlen, early (the early-stopping condition of the loop held)
  crash   exception escaping the train function (signature names loop, algorithm, memory kind)
"""
from __future__ import annotations

import contextlib
import io
import os
import random
import shutil
import tempfile
import traceback
import warnings
from unittest import mock

import numpy as np
import torch

LOOPS = ("off", "on", "offline", "bandit", "ma_off", "ma_on")
RULE = {"off": "any", "on": "any", "offline": "any", "bandit": "any", "ma_off": "any", "ma_on": "sum"}
ALGOS = {"off": ["DQN", "RainbowDQN", "DDPG", "TD3"], "on": ["PPO"], "offline": ["CQN"],
         "bandit": ["NeuralUCB", "NeuralTS"], "ma_off": ["MADDPG", "MATD3"], "ma_on": ["IPPO"]}
MEMS = {"DQN": ["uniform"], "RainbowDQN": ["uniform", "nstep", "per", "per_nstep"], "DDPG": ["uniform"], "TD3": ["uniform"],
        "PPO": ["none"], "CQN": ["uniform"], "NeuralUCB": ["uniform"], "NeuralTS": ["uniform"],
        "MADDPG": ["ma"], "MATD3": ["ma"], "IPPO": ["none"]}
CREATE_NAME = {"RainbowDQN": "Rainbow DQN"}

MUT_KINDS = {
    "none": dict(no_mutation=1, architecture=0, new_layer_prob=0.5, parameters=0, activation=0, rl_hp=0),
    "all": dict(no_mutation=0.2, architecture=0.2, new_layer_prob=0.5, parameters=0.2, activation=0.2, rl_hp=0.2),
    "arch": dict(no_mutation=0, architecture=1, new_layer_prob=0.5, parameters=0, activation=0, rl_hp=0),
    "param": dict(no_mutation=0, architecture=0, new_layer_prob=0.5, parameters=1, activation=0, rl_hp=0),
    "act": dict(no_mutation=0, architecture=0, new_layer_prob=0.5, parameters=0, activation=1, rl_hp=0),
    "hp": dict(no_mutation=0, architecture=0, new_layer_prob=0.5, parameters=0, activation=0, rl_hp=1),
}


def default_cfg(**kw):
    c = dict(loop="off", algo="DQN", mem="uniform", k=2, num_envs=2, learn_step=2, batch=4, evo_steps=8, max_steps=24,
             evo=True, elitism=True, mutate_elite=False, tsize=2, mut="all", checkpoint=None, target=None,
             learning_delay=0, L=3, eval_steps=None, eval_loop=1, seed=0, memsize=64)
    c.update(kw)
    return c


# ============================================================================================ recorder
class RunawayLoop(RuntimeError):
    """the training function is still starting generations long after any budget could have been met"""


class Rec:
    def __init__(self):
        self.gen_cap = 10 ** 9
        self.cur = None            # id of the agent that called get_action last (outside test)
        self.in_test = 0
        self.keep = []             # every agent ever seen (keeps ids unique)
        self.truth = {}            # id -> environment steps along the lineage
        self.gend = {}             # id -> environment steps in the current generation's rollout
        self.ntest = {}
        self.learn = {}            # id -> [n calls, n with len(memory) < batch, first exception text]
        self.parent = {}           # child id -> parent id
        self.phase = "rollout"
        self.pop = None
        self.ev = []
        self.memory = None
        self.offline = False
        self.unattributed = 0      # environment steps outside test with no acting agent
        self.test_steps = 0
        self.resets = 0
        self.saves = 0
        self.eval_loop = 1
        self.mem_len = None        # callable -> current number of stored transitions

    # ---- agents
    def know(self, a):
        i = id(a)
        if i not in self.truth:
            self.keep.append(a)
            self.truth[i] = 0
        return i

    def boundary(self):
        """A rollout / selection / return begins: if evaluations have happened since the last rollout,
        the generation is complete."""
        if self.phase == "eval":
            self.flush(self.pop)

    def flush(self, pop):
        means = [float(np.mean(a.fitness[-self.eval_loop:])) if len(a.fitness) else float("-inf") for a in pop]
        order = sorted(set(means))
        e = {"op": "gen", "slots": []}
        for a, m in zip(pop, means):
            i = self.know(a)
            ln = self.learn.get(i, [0, 0, ""])
            e["slots"].append({"d": int(self.gend.get(i, 0)), "steps": int(a.steps[-1]), "fitlen": len(a.fitness),
                               "ntest": int(self.ntest.get(i, 0)), "idx": int(a.index), "score": order.index(m),
                               "nlearn": int(ln[0]), "learn_ok": ln[1] == 0, "learn_exc": ln[2],
                               "batch": int(getattr(a, "batch_size", 0)), "learn_step": int(getattr(a, "learn_step", 0))})
            self.truth[i] += self.gend.get(i, 0)
        e["unattributed"] = int(self.unattributed)
        self.ev.append(e)
        self.gend, self.ntest, self.learn = {}, {}, {}
        self.unattributed = 0
        self.phase = "rollout"
        if sum(1 for x in self.ev if x["op"] == "gen") > self.gen_cap:
            raise RunawayLoop(f"more than {self.gen_cap} generations for max_steps={self.max_steps}")

    # ---- hooks
    def on_get_action(self, a):
        if self.in_test:
            return
        self.boundary()
        self.cur = self.know(a)

    def on_env_step(self, n):
        if self.in_test:
            self.test_steps += n
            return
        if self.cur is None:
            self.unattributed += n
            return
        self.gend[self.cur] = self.gend.get(self.cur, 0) + n

    def on_env_reset(self):
        self.resets += 1

    def on_learn_begin(self, a):
        if self.in_test:
            return
        self.boundary()
        i = self.know(a)
        st = self.learn.setdefault(i, [0, 0, ""])
        st[0] += 1
        if self.mem_len is not None and self.mem_len() < int(a.batch_size):
            st[1] += 1
        if self.offline:                 # a learning step is the only "step" an offline agent takes
            self.gend[i] = self.gend.get(i, 0) + 1

    def on_learn_exc(self, a, ex):
        st = self.learn.setdefault(self.know(a), [0, 0, ""])
        if not st[2]:
            st[2] = f"{type(ex).__name__}: {ex}"[:160]

    def on_test_begin(self, a):
        self.know(a)
        self.in_test += 1
        self.phase = "eval"
        self.cur = None

    def on_test_end(self, a):
        self.in_test -= 1
        self.ntest[id(a)] = self.ntest.get(id(a), 0) + 1

    def on_clone(self, parent, child):
        self.know(parent)
        i = self.know(child)
        self.parent[i] = id(parent)
        self.truth[i] = self.truth[id(parent)]

    def root_in(self, a, old_ids):
        i = id(a)
        seen = set()
        while i not in old_ids and i in self.parent and i not in seen:
            seen.add(i)
            i = self.parent[i]
        return old_ids.index(i) + 1 if i in old_ids else 0


REC: Rec = None     # the recorder of the run in progress (one run per process at a time)


def fingerprint(agent):
    """What 'carried unchanged' compares: evaluation networks (architecture, weights), hyperparameters,
    step counter and fitness history.  Target / shared networks are the business of C01 / C08."""
    from ..project import agent as proj
    sn = proj.snapshot(agent)
    evals, _ = proj.net_names(agent)
    return {"nets": {n: (sn["nets"][n]["arch"], sn["nets"][n]["w"]) for n in evals}, "hp": sn["hp"],
            "steps": sn["steps"][-1], "fitness": sn["fitness"]}


# ============================================================================================ environments
def _probe_env_cls():
    import gymnasium as gym
    from gymnasium import spaces

    class ProbeEnv(gym.Env):
        """Vector observation, Discrete(3) or Box(2) action, fixed episode length L, reward depends on the action."""
        metadata = {"render_modes": []}

        def __init__(self, L=3, continuous=False, count=False):
            self.observation_space = spaces.Box(-1.0, 1.0, (4,), dtype=np.float32)
            self.action_space = spaces.Box(-1.0, 1.0, (2,), dtype=np.float32) if continuous else spaces.Discrete(3)
            self.L, self.continuous, self.count = L, continuous, count
            self.t = 0
            self.nsteps = self.nresets = 0

        def _obs(self):
            x = self.t / max(self.L, 1)
            return np.array([x, 1.0 - x, float(self.t % 2), 0.5], dtype=np.float32)

        def reset(self, seed=None, options=None):
            self.t = 0
            self.nresets += 1
            if self.count:
                REC.on_env_reset()
            return self._obs(), {}

        def step(self, action):
            self.t += 1
            self.nsteps += 1
            if self.count:
                REC.on_env_step(1)
            a = np.asarray(action, dtype=np.float64).reshape(-1)
            r = float(-abs(a[0] - self.t / self.L)) if self.continuous else float(int(a[0]) == self.t % 3) + 0.25 * int(a[0])
            return self._obs(), r, bool(self.t >= self.L), False, {}

    return ProbeEnv


def make_single_env(num_envs, L, continuous):
    """num_envs >= 1: SyncVectorEnv subclass that counts at the vector level; num_envs == 0: the bare env."""
    from gymnasium.vector import SyncVectorEnv
    ProbeEnv = _probe_env_cls()
    if num_envs == 0:
        return ProbeEnv(L, continuous, count=True)

    class CountingVec(SyncVectorEnv):
        def step(self, actions):
            REC.on_env_step(self.num_envs)
            return super().step(actions)

        def reset(self, *a, **kw):
            REC.on_env_reset()
            return super().reset(*a, **kw)

    return CountingVec([(lambda: ProbeEnv(L, continuous)) for _ in range(num_envs)])


def make_ma_env(num_envs, L, continuous):
    from .vecenv import ScriptedEnv

    class SmallScripted(ScriptedEnv):
        """ScriptedEnv with observations scaled into [0, 1] (identity of observations is C12's business)."""
        def _obs(self, agents):
            o = super()._obs(agents)
            return {k: ((v % 64) / 64.0).astype(v.dtype) for k, v in o.items()}

        def step(self, actions):
            if getattr(self, "_count", False):
                REC.on_env_step(1)
            return super().step(actions)

        def reset(self, seed=None, options=None):
            if getattr(self, "_count", False):
                REC.on_env_reset()
            return super().reset(seed=seed, options=options)

    if num_envs == 0:
        e = SmallScripted(idx=0, n_agents=2, L=L, continuous=continuous)
        object.__setattr__(e, "_count", True)
        return e
    from agilerl.vector.pz_async_vec_env import AsyncPettingZooVecEnv
    fns = [(lambda i=i: SmallScripted(idx=i, n_agents=2, L=L, continuous=continuous)) for i in range(num_envs)]
    env = AsyncPettingZooVecEnv(fns)
    o_step, o_reset = env.step, env.reset

    def step(actions):
        REC.on_env_step(env.num_envs)
        return o_step(actions)

    def reset(*a, **kw):
        REC.on_env_reset()
        return o_reset(*a, **kw)
    env.step, env.reset = step, reset
    return env


def make_bandit_env(seed, cast32=False):
    import pandas as pd
    from agilerl.wrappers.learning import BanditEnv
    rs = np.random.RandomState(seed)
    feats = pd.DataFrame(rs.rand(12, 3).astype(np.float32))
    targs = pd.DataFrame(np.arange(12) % 3)

    class CountingBandit(BanditEnv):
        """BanditEnv builds its contexts with np.zeros (float64); cast32 = the same contexts as float32"""
        def step(self, k):
            REC.on_env_step(1)
            ctx, r = super().step(k)
            return (ctx.astype(np.float32), np.float32(r)) if cast32 else (ctx, r)

        def reset(self):
            REC.on_env_reset()
            ctx = super().reset()
            return ctx.astype(np.float32) if cast32 else ctx

    return CountingBandit(feats, targs)


# ============================================================================================ agents
def make_population(cfg, osp, asp, ids=None):
    """create_population (agilerl/utils/utils.py) where it can build the algorithm; PPO / DDPG / TD3 cannot be
    built with the default share_encoders=True under Python 3.12 (DESIGN 6-P) and are constructed directly
    with share_encoders=False.  Returns (population, how)."""
    from .. import zoo
    from agilerl.utils.utils import create_population
    algo, k = cfg["algo"], cfg["k"]
    ne = max(cfg["num_envs"], 1)
    hp = zoo.hp_config(algo)
    init = {"BATCH_SIZE": cfg["batch"], "LEARN_STEP": cfg["learn_step"], "LR": 1e-3, "LR_ACTOR": 1e-3, "LR_CRITIC": 2e-3,
            "TAU": 0.5, "GAMMA": 0.5, "NUM_ATOMS": 5, "V_MIN": -2, "V_MAX": 2, "N_STEP": 2, "UPDATE_EPOCHS": 1,
            "POLICY_FREQ": 2, "AGENT_IDS": ids, "O_U_NOISE": True, "EXPL_NOISE": 0.1, "MEAN_NOISE": 0.0, "THETA": 0.15,
            "DT": 0.01, "GAE_LAMBDA": 0.95, "ACTION_STD_INIT": 0.6, "CLIP_COEF": 0.2, "ENT_COEF": 0.01, "VF_COEF": 0.5,
            "MAX_GRAD_NORM": 0.5, "TARGET_KL": None, "LAMBDA": 1.0, "REG": 0.000625, "DOUBLE": False}
    zoo.seed_all(1000 + cfg["seed"])
    try:
        pop = create_population(CREATE_NAME.get(algo, algo), osp, asp, zoo.net_config("vector"), init, hp_config=hp,
                                population_size=k, num_envs=ne)
        return pop, "create_population"
    except AssertionError as ex:
        if "EvolvableNetwork" not in str(ex) or algo not in ("PPO", "DDPG", "TD3"):
            raise
    pop = []
    nc = zoo.net_config("vector")
    for i in range(k):
        common = dict(index=i, hp_config=hp, net_config=nc, batch_size=cfg["batch"], learn_step=cfg["learn_step"], share_encoders=False)
        if algo == "PPO":
            from agilerl.algorithms.ppo import PPO
            pop.append(PPO(osp, asp, lr=1e-3, update_epochs=1, gamma=0.5, **common))
        elif algo == "DDPG":
            from agilerl.algorithms.ddpg import DDPG
            pop.append(DDPG(osp, asp, vect_noise_dim=ne, lr_actor=1e-3, lr_critic=2e-3, tau=0.5, gamma=0.5, policy_freq=2, **common))
        else:
            from agilerl.algorithms.td3 import TD3
            pop.append(TD3(osp, asp, vect_noise_dim=ne, lr_actor=1e-3, lr_critic=2e-3, tau=0.5, gamma=0.5, policy_freq=2, **common))
    return pop, "direct(share_encoders=False)"


# ============================================================================================ patching
@contextlib.contextmanager
def instrument(cls):
    o_ga, o_learn, o_test, o_clone, o_save = cls.get_action, cls.learn, cls.test, cls.clone, cls.save_checkpoint

    def get_action(self, *a, **kw):
        REC.on_get_action(self)
        return o_ga(self, *a, **kw)

    def learn(self, *a, **kw):
        REC.on_learn_begin(self)
        try:
            return o_learn(self, *a, **kw)
        except Exception as ex:
            REC.on_learn_exc(self, ex)
            raise

    def test(self, *a, **kw):
        REC.on_test_begin(self)
        try:
            return o_test(self, *a, **kw)
        finally:
            REC.on_test_end(self)

    def clone(self, *a, **kw):
        c = o_clone(self, *a, **kw)
        REC.on_clone(self, c)
        return c

    def save_checkpoint(self, *a, **kw):
        REC.saves += 1
        return o_save(self, *a, **kw)

    with mock.patch.object(cls, "get_action", get_action), mock.patch.object(cls, "learn", learn), \
            mock.patch.object(cls, "test", test), mock.patch.object(cls, "clone", clone), \
            mock.patch.object(cls, "save_checkpoint", save_checkpoint):
        yield


def wrap_evo(tournament, mutation):
    o_select, o_mut = tournament.select, mutation.mutation
    pending = {}

    def select(population):
        if REC.phase == "eval":
            REC.flush(population)
        pending["old"] = list(population)
        pending["pre"] = [fingerprint(a) for a in population]
        means = [float(np.mean(a.fitness[-tournament.eval_loop:])) for a in population]
        pending["best"] = [i + 1 for i, m in enumerate(means) if m == max(means)]
        elite, new = o_select(population)
        pending["new"] = list(new)
        return elite, new

    def mutate(population, pre_training_mut=False):
        out = o_mut(population, pre_training_mut=pre_training_mut)
        if pre_training_mut:
            REC.pop = out
            return out
        old_ids = [id(a) for a in pending["old"]]
        for j, a in enumerate(out):                 # a mutation that returns a new object: same position
            if id(a) not in REC.truth and j < len(pending["new"]):
                REC.on_clone(pending["new"][j], a)
        parents = [REC.root_in(a, old_ids) for a in out]
        same = False
        if out and parents[0] >= 1:
            same = fingerprint(out[0]) == pending["pre"][parents[0] - 1]
        REC.ev.append({"op": "sel", "parents": parents, "idxs": [int(a.index) for a in out], "steps": [int(a.steps[-1]) for a in out],
                       "fitlen": [len(a.fitness) for a in out], "best": pending["best"], "elite_same": bool(same),
                       "muts": [str(a.mut) for a in out]})
        REC.pop = out
        return out

    tournament.select, mutation.mutation = select, mutate


# ============================================================================================ one run
def _where(tb):
    """innermost frame inside agilerl (file:function) of a traceback"""
    w = ""
    for fr in traceback.extract_tb(tb):
        if "/agilerl/" in fr.filename:
            w = f"{os.path.basename(fr.filename)}:{fr.name}"
    return w


def run(cfg):
    """Execute one configuration; returns {"cfg":..., "ev":[...]} for TrainLoop_Trace."""
    global REC
    warnings.filterwarnings("ignore")
    import gymnasium
    gymnasium.logger.min_level = 50
    torch.set_num_threads(1)
    from gymnasium import spaces
    from .. import zoo
    cfg = default_cfg(**cfg)
    loop, algo, mem = cfg["loop"], cfg["algo"], cfg["mem"]
    REC = rec = Rec()
    rec.eval_loop = cfg["eval_loop"]
    rec.max_steps = cfg["max_steps"]
    # every generation adds at least one step to every agent's counter; far beyond that the loop is not going to stop
    rec.gen_cap = 2 * cfg["max_steps"] // max(1, min(cfg["evo_steps"], cfg.get("episode_steps") or cfg["evo_steps"])) + 8
    zoo.seed_all(cfg["seed"])
    tmp = tempfile.mkdtemp(prefix="c20-")
    env = None
    out = {"cfg": dict(cfg, rule=RULE[loop]), "ev": rec.ev}
    try:
        ne = cfg["num_envs"]
        continuous = algo in ("DDPG", "TD3", "MADDPG", "MATD3")
        ids = None
        # ---- environment
        if loop in ("off", "on", "offline"):
            env = make_single_env(ne, cfg["L"], continuous)
            osp = env.single_observation_space if ne else env.observation_space
            asp = env.single_action_space if ne else env.action_space
        elif loop == "bandit":
            env = make_bandit_env(cfg["seed"], cast32=cfg.get("bandit_env") == "float32")
            osp = spaces.Box(0.0, 1.0, env.context_dim, dtype=np.float32)
            asp = spaces.Discrete(env.arms)
        else:
            env = make_ma_env(ne, cfg["L"], continuous)
            ids = list(env.possible_agents)
            one = env if ne == 0 else None
            if one is not None:
                osp = [one.observation_space(a) for a in ids]
                asp = [one.action_space(a) for a in ids]
            else:
                osp = [env.single_observation_space(a) for a in ids]
                asp = [env.single_action_space(a) for a in ids]
        # ---- population, memory
        pop, how = make_population(cfg, osp, asp, ids)
        out["cfg"]["built_by"] = how
        if cfg.get("presteps"):                 # members that enter with non-zero step counters (a second training call, a resumed run)
            for a, p_ in zip(pop, cfg["presteps"]):
                a.steps = [int(p_)]
        if cfg.get("hetero_batch"):             # members with different batch sizes (as a batch_size mutation produces)
            for a, b_ in zip(pop, cfg["hetero_batch"]):
                a.batch_size = int(b_)
        if cfg.get("hetero"):                   # a population whose members differ in learn_step (as rl_hp mutation produces):
            for i, a in enumerate(pop):         # on-policy members then take different numbers of steps per generation
                a.learn_step = int(cfg["learn_step"]) + (i % 2) * int(cfg["hetero"])
        if cfg["target"] is not None:
            for a in pop:                       # the loops stop early only once 100 generations are on record
                a.steps = [0] * 100
        from agilerl.components import MultiStepReplayBuffer, PrioritizedReplayBuffer, ReplayBuffer
        from agilerl.components.multi_agent_replay_buffer import MultiAgentReplayBuffer
        memory, nmem = None, None
        if mem == "uniform":
            memory = ReplayBuffer(cfg["memsize"])
        elif mem == "nstep":
            memory = ReplayBuffer(cfg["memsize"])
            nmem = MultiStepReplayBuffer(cfg["memsize"], n_step=2, gamma=0.5)
        elif mem == "per":
            memory = PrioritizedReplayBuffer(cfg["memsize"], alpha=0.6)
        elif mem == "per_nstep":
            memory = PrioritizedReplayBuffer(cfg["memsize"], alpha=0.6)
            nmem = MultiStepReplayBuffer(cfg["memsize"], n_step=2, gamma=0.5)
        elif mem == "ma":
            memory = MultiAgentReplayBuffer(cfg["memsize"], field_names=["state", "action", "reward", "next_state", "done"], agent_ids=ids)
        if memory is not None:
            rec.mem_len = lambda: len(memory)
        rec.offline = loop == "offline"
        # ---- evolution
        tournament = mutation = None
        if cfg["evo"]:
            from agilerl.hpo.mutation import Mutations
            from agilerl.hpo.tournament import TournamentSelection
            tournament = TournamentSelection(cfg["tsize"], bool(cfg["elitism"]), cfg["k"], cfg["eval_loop"])
            mutation = Mutations(**MUT_KINDS[cfg["mut"]], mutation_sd=0.1, mutate_elite=bool(cfg["mutate_elite"]), rand_seed=cfg["seed"], device="cpu")
            wrap_evo(tournament, mutation)
        rec.pop = pop
        for a in pop:
            rec.know(a)
        rec.ev.append({"op": "init", "k": len(pop), "rule": RULE[loop], "max_steps": cfg["max_steps"], "evo": bool(cfg["evo"]), "elitism": bool(cfg["evo"] and cfg["elitism"]),
                       "mutate_elite": bool(cfg["mutate_elite"]), "target": cfg["target"] is not None,
                       "steps": [int(a.steps[-1]) for a in pop], "idxs": [int(a.index) for a in pop], "fitlen": [len(a.fitness) for a in pop]})
        common = dict(max_steps=cfg["max_steps"], evo_steps=cfg["evo_steps"], eval_steps=cfg["eval_steps"], eval_loop=cfg["eval_loop"],
                      target=cfg["target"], tournament=tournament, mutation=mutation, checkpoint=cfg["checkpoint"],
                      checkpoint_path=os.path.join(tmp, "ckpt"), save_elite=bool(cfg["evo"]), elite_path=os.path.join(tmp, "elite"),
                      verbose=bool(cfg.get("verbose", True)), wb=False)
        sink = io.StringIO()
        with instrument(type(pop[0])), contextlib.redirect_stdout(sink), contextlib.redirect_stderr(sink):
            try:
                if loop == "off":
                    from agilerl.training.train_off_policy import train_off_policy
                    res = train_off_policy(env, "probe", algo, pop, memory, learning_delay=cfg["learning_delay"], eps_start=1.0, eps_end=0.1,
                                           eps_decay=0.9, n_step=nmem is not None, per=mem.startswith("per"), n_step_memory=nmem, **common)
                elif loop == "on":
                    from agilerl.training.train_on_policy import train_on_policy
                    res = train_on_policy(env, "probe", algo, pop, **common)
                elif loop == "offline":
                    from agilerl.training.train_offline import train_offline
                    n = 24
                    rs = np.random.RandomState(cfg["seed"])
                    dataset = {"observations": rs.rand(n, 4).astype(np.float32), "actions": rs.randint(0, 3, size=(n, 1)),
                               "rewards": rs.randint(0, 2, size=(n, 1)).astype(np.float32), "terminals": (np.arange(n) % 4 == 3)}
                    dataset["next_observations"] = np.roll(dataset["observations"], -1, axis=0)
                    res = train_offline(env, "probe", dataset, algo, pop, memory, **common)
                elif loop == "bandit":
                    from agilerl.training.train_bandits import train_bandits
                    kw = dict(common)
                    kw["eval_steps"] = cfg["eval_steps"] or 4
                    res = train_bandits(env, "probe", algo, pop, memory, episode_steps=cfg.get("episode_steps", cfg["evo_steps"]), **kw)
                elif loop == "ma_off":
                    from agilerl.training.train_multi_agent_off_policy import train_multi_agent_off_policy
                    res = train_multi_agent_off_policy(env, "probe", algo, pop, memory, learning_delay=cfg["learning_delay"], **common)
                else:
                    from agilerl.training.train_multi_agent_on_policy import train_multi_agent_on_policy
                    res = train_multi_agent_on_policy(env, "probe", algo, pop, **common)
            except Exception as ex:
                tb = traceback.format_exc()
                rec.ev.append({"op": "crash", "exc": type(ex).__name__, "msg": str(ex)[:200], "where": _where(ex.__traceback__),
                               "phase": "eval" if rec.in_test else rec.phase, "tb": tb[-1500:]})
                return out
        rpop, fits = res
        rec.boundary()
        early = False
        if cfg["target"] is not None and len(rpop) and all(len(a.fitness) for a in rpop):
            early = bool(np.all(np.greater([np.mean(a.fitness[-10:]) for a in rpop], cfg["target"])) and len(rpop[0].steps) >= 100)
        rec.ev.append({"op": "ret", "size": len(rpop), "idxs": [int(a.index) for a in rpop], "steps": [int(a.steps[-1]) for a in rpop],
                       "fitlen": [len(a.fitness) for a in rpop], "same_pop": [id(a) for a in rpop] == [id(a) for a in rec.pop],
                       "early": early, "fit_rows": len(fits), "saves": rec.saves,
                       "files": len([f for f in os.listdir(tmp) if f.endswith(".pt")]), "test_steps": rec.test_steps})
        return out
    except Exception as ex:      # failure outside the train function: the harness or the construction of inputs
        rec.ev.append({"op": "crash", "exc": type(ex).__name__, "msg": str(ex)[:200], "where": "setup:" + _where(ex.__traceback__),
                       "phase": "setup", "tb": traceback.format_exc()[-1500:]})
        return out
    finally:
        try:
            if env is not None and hasattr(env, "close"):
                env.close()
        except Exception:
            pass
        shutil.rmtree(tmp, ignore_errors=True)
        for e in rec.ev:
            e.setdefault("op", "?")
