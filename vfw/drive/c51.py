"""Driver for C18 (specs/C51.tla): the REAL RainbowDQN._dqn_loss / learn with stubbed network *inputs*.

What is real: RainbowDQN construction, learn(), _dqn_loss(), preprocess_observation, the optimiser
step, soft update, noise reset.  What is stubbed (inputs only): the forward of agent.actor and
agent.actor_target, which return values from tables chosen by the driver, keyed by the *content* of
the observation rows they are called with (row id, batch kind), so that a call on the wrong batch or
in the wrong role yields different numbers:

  actor(x)                      -> q-values whose argmax is the intended greedy next action
  actor_target(x, q=False)      -> per action a weight vector over the atoms (the spec's p for the
                                   greedy action of a next-observation row, decoys elsewhere)
  actor(x, q=False, log=True)   -> log of a strictly positive pmf per action (+ 0 * the real
                                   network's output, so that the real backward pass runs)

The projected distribution is observed through the guarded hook ("rainbow.proj",
agilerl.utils.verif_hooks); the element-wise loss by wrapping the bound _dqn_loss (observation only).
Observation layout: obs = [row, kind, 7, 0, ...] (reshaped to the observation space's shape); kind 0/1 =
obs/next_obs of the 1-step batch, 2/3 = obs/next_obs of the n-step batch.

Supports.  The specification works in units of delta_z with an integer vmin.  The real agent is built on the
affine image  z_j = (vmin + shift + j) * scale  of that support, with rewards  (r + shift (1 - (1-d) gamma^n)) *
scale  (C51.tla, ShiftCovariant: same b, hence same projection).  If scale and shift are dyadic every float32
operation is exact and the hook values are compared with equality ("exact" harness); otherwise (realistic
supports such as [-10, 10] / 51 atoms, delta_z = 0.4) the hook values are rounded to the grid when they are within
a float32 error bound of a grid point (the projection is continuous in its inputs) and -1 (off grid) otherwise.
"""
from __future__ import annotations

import math
import random
from typing import Dict, List, Optional, Tuple

import numpy as np
import torch

torch.set_num_threads(1)

A = 3                                   # number of actions of the stub environment
KIND = {"one": (0, 1), "n": (2, 3)}     # batch -> (kind of obs, kind of next_obs)
EPS32 = 2.0 ** -24


def _imports():
    from gymnasium import spaces
    from tensordict import TensorDict
    from agilerl.algorithms.dqn_rainbow import RainbowDQN
    from agilerl.utils import verif_hooks
    return spaces, TensorDict, RainbowDQN, verif_hooks


OFF_GRID = -10 ** 9                     # off-grid marker for quantities that may legitimately be -1 (rewards)


def grid_int(x: float, den: float, tol: float = 0.0, off: int = -1) -> int:
    """round(x*den) if x*den is within tol of an integer (tol = 0: exactly an integer), else the off-grid marker."""
    v = float(x) * den
    if not math.isfinite(v):
        return off
    iv = round(v)
    return int(iv) if abs(v - iv) <= tol and abs(iv) < 2 ** 29 else off


def exact_int(x: float, den: float) -> int:
    return grid_int(x, den, 0.0)


def is_dyadic(x: float, bits: int = 10) -> bool:
    return float(x * 2 ** bits).is_integer() and abs(x) < 2 ** 12


def top_index_overflows(v_min, v_max, N: int) -> bool:
    """Float32 emulation of b = (clamp(t_z) - v_min) / delta_z for t_z = v_max: does it exceed N - 1?  (Used only to
    label supports in reports, never to decide a verdict.)"""
    delta = (v_max - v_min) / (N - 1)
    b = (torch.tensor([float(v_max)]).clamp(min=v_min, max=v_max) - v_min) / delta
    return bool(b.item() > N - 1)


def affine_of(v_min, v_max, N: int) -> Tuple[int, float, float]:
    """(vmin, scale, shift) with v_min = (vmin + shift) * scale, scale = delta_z, 0 <= shift < 1."""
    scale = (v_max - v_min) / (N - 1)
    vmin = math.floor(v_min / scale + 1e-9)
    shift = v_min / scale - vmin
    if abs(shift) < 1e-9:
        shift = 0.0
    return vmin, scale, shift


class Harness:
    """One real agent + stub tables."""

    def __init__(self, N: int, vmin: int, B: int, *, scale: float = 1.0, shift: float = 0.0, vrange=None,
                 gamma: float = 0.5, n_step: int = 1, combined: bool = False, seed: int = 0, prior_eps: float = 1e-6,
                 A: int = 3, obs_shape: Tuple[int, ...] = (4,), clone: bool = False, bs_ctor: Optional[int] = None):
        spaces, TensorDict, RainbowDQN, hooks = _imports()
        self.TensorDict, self.hooks = TensorDict, hooks
        self.A, self.obs_shape = A, tuple(obs_shape)
        torch.manual_seed(seed)
        np.random.seed(seed % (2 ** 32))
        if vrange is not None:                               # a support given by its bounds, as a user writes it
            v_min, v_max = vrange
            vmin, scale, shift = affine_of(v_min, v_max, N)
            self.exact = False
        else:
            v_min = (vmin + shift) * scale
            v_max = (vmin + shift + N - 1) * scale
            self.exact = is_dyadic(scale) and is_dyadic(shift)
            if float(v_min).is_integer() and float(v_max).is_integer() and seed % 2 == 0:
                v_min, v_max = int(v_min), int(v_max)          # the constructor accepts int and float bounds
        self.N, self.vmin, self.B, self.scale, self.shift = N, vmin, B, scale, shift
        self.v_min, self.v_max = v_min, v_max
        # float32 error bound (absolute, per unit of source mass) of b and of a projected entry on a non-dyadic support
        mag = max(abs(v_min), abs(v_max)) / scale + N
        self.relerr = 0.0 if self.exact else 1e-6 + 5e-7 * mag
        self.gamma_of: Dict[str, float] = {}
        ag = RainbowDQN(
            spaces.Box(-1.0, 1.0e6, self.obs_shape, dtype=np.float32), spaces.Discrete(A),
            batch_size=(B if bs_ctor is None else bs_ctor), num_atoms=N,
            v_min=v_min, v_max=v_max, gamma=gamma, n_step=n_step, combined_reward=combined, prior_eps=prior_eps,
            lr=1e-3, net_config={"latent_dim": 8, "encoder_config": {"hidden_size": [16]},
                                 "head_config": {"hidden_size": [64]}})
        if bs_ctor is not None:
            setattr(ag, "batch_size", B)                    # what a hyper-parameter mutation of batch_size does
        if clone:
            ag = ag.clone()                                 # the configuration has to survive clone()
        self.agent = ag
        want = torch.tensor([(vmin + shift + j) * scale for j in range(N)], dtype=torch.float32)
        # the support is the public definition of the grid; delta_z is the code's own derived quantity (not trusted here)
        if self.exact:
            good = torch.equal(ag.support.cpu(), want)
        else:
            good = torch.allclose(ag.support.cpu(), want, rtol=1e-5, atol=1e-6 * scale)
        if not good:
            raise RuntimeError(f"support of the real agent is not the intended grid: {ag.support}")
        self.calls: List[tuple] = []
        self.qvals: Dict[int, torch.Tensor] = {}
        self.tpmf: Dict[int, torch.Tensor] = {}
        self.olog: Dict[int, torch.Tensor] = {}
        self.losses: List[object] = []
        self._real_actor_fwd = ag.actor.forward
        self._real_target_fwd = ag.actor_target.forward
        ag.actor.forward = self._actor_fwd
        ag.actor_target.forward = self._target_fwd
        real_loss = ag._dqn_loss

        def observed_loss(*a, **k):
            n0 = len(self.calls)
            try:
                out = real_loss(*a, **k)
            except Exception as e:          # recorded, then re-raised: learn() must see what the code does
                self.losses.append(("exc", f"{type(e).__name__}: {e}", self.calls[n0:]))
                raise
            self.losses.append(("ok", out.detach().clone(), self.calls[n0:]))
            return out

        ag._dqn_loss = observed_loss

    # ------------------------------------------------------------------ stubs
    def _lookup(self, table: Dict[int, torch.Tensor], x: torch.Tensor) -> torch.Tensor:
        flat = x.reshape(x.shape[0], -1)
        rows = flat[:, 0].long().tolist()
        kinds = flat[:, 1].long().tolist()
        return torch.stack([table[kd][r] for kd, r in zip(kinds, rows)]), tuple(kinds), tuple(rows)

    def _actor_fwd(self, x, q=True, log=False):
        if q:
            out, kinds, rows = self._lookup(self.qvals, x)
            self.calls.append(("actor", "q", kinds, rows))
            return out
        out, kinds, rows = self._lookup(self.olog, x)
        self.calls.append(("actor", "log" if log else "pmf", kinds, rows))
        real = self._real_actor_fwd(x, q=False, log=True)
        out = out + 0.0 * real                       # exact: real is finite; keeps the autograd graph real
        return out if log else out.exp()

    def _target_fwd(self, x, q=True, log=False):
        out, kinds, rows = self._lookup(self.tpmf, x)
        self.calls.append(("target", "q" if q else ("log" if log else "pmf"), kinds, rows))
        if q:
            return (out * self.agent.support).sum(2)
        return out.log() if log else out

    # ------------------------------------------------------------------ tables
    def greedy_q(self, g: int) -> torch.Tensor:
        return torch.tensor([1.0 if a == g else -float(1 + abs(a - g)) for a in range(self.A)])

    def set_tables(self, rng: random.Random, batches: Dict[str, dict], pden: int):
        """batches[name] = {rows: [(p numerators, rq, d)], greedy: [a], taken: [a]}.  Decoys are random."""
        N, B, A = self.N, self.B, self.A
        self.qvals, self.tpmf, self.olog = {}, {}, {}
        for kind in range(4):
            qv = torch.zeros(B, A)
            tp = torch.zeros(B, A, N)
            for i in range(B):
                perm = list(range(A))
                rng.shuffle(perm)
                for a in range(A):
                    qv[i, a] = float(perm[a]) - 1.0
                    w = [0] * N
                    for _ in range(pden):
                        w[rng.randrange(N)] += 1
                    tp[i, a] = torch.tensor(w, dtype=torch.float32) / pden
            q = torch.tensor([[[1 + rng.randrange(15) for _ in range(N)] for _ in range(A)] for _ in range(B)], dtype=torch.float32)
            q = q / q.sum(2, keepdim=True)
            self.qvals[kind], self.tpmf[kind], self.olog[kind] = qv, tp, q.log()
        for name, b in batches.items():
            ks, kn = KIND[name]
            for i, (p, rq, d) in enumerate(b["rows"]):
                g = b["greedy"][i]
                self.qvals[kn][i] = self.greedy_q(g)
                self.tpmf[kn][i, g] = torch.tensor(p, dtype=torch.float32) / pden

    def _obs(self, kind: int) -> torch.Tensor:
        n = int(np.prod(self.obs_shape))
        o = torch.zeros(self.B, n)
        o[:, 0] = torch.arange(self.B, dtype=torch.float32)
        o[:, 1] = float(kind)
        if n > 2:
            o[:, 2] = 7.0
        return o.reshape((self.B,) + self.obs_shape)

    def real_reward(self, rq: int, d: int, q: int, gamma_eff: float) -> float:
        """The reward of the affine image: (r + shift (1 - (1-d) gamma)) * scale  (exact in float64 on dyadic supports)."""
        return (rq / q + self.shift * (1.0 - (1 - d) * gamma_eff)) * self.scale

    def experiences(self, name: str, b: dict, q: int, *, gamma_eff: float = 0.5, per: bool = False, idxs=None, weights=None,
                    rdtype: str = "f32", ddtype: str = "f32", ashape: str = "f32col", container: str = "td"):
        B = self.B
        ks, kn = KIND[name]
        self.gamma_of[name] = gamma_eff
        rew = [[self.real_reward(r[1], r[2], q, gamma_eff)] for r in b["rows"]]
        if rdtype == "i64":
            if not all(float(x[0]).is_integer() for x in rew):
                raise RuntimeError("integer reward dtype asked for non-integer rewards")
            reward = torch.tensor([[int(x[0])] for x in rew], dtype=torch.int64)
        else:
            reward = torch.tensor(rew, dtype=torch.float32)
        done = torch.tensor([[r[2]] for r in b["rows"]], dtype={"f32": torch.float32, "i64": torch.int64, "u8": torch.uint8}[ddtype])
        if ashape == "f32col":
            action = torch.tensor([[float(a)] for a in b["taken"]], dtype=torch.float32)
        elif ashape == "i64col":
            action = torch.tensor([[a] for a in b["taken"]], dtype=torch.int64)
        else:
            action = torch.tensor(list(b["taken"]), dtype=torch.int64)
        d = {"obs": self._obs(ks), "action": action, "reward": reward, "next_obs": self._obs(kn), "done": done}
        if idxs is not None:
            d["idxs"] = idxs
        if per:
            d["weights"] = weights
        return d if container == "dict" else self.TensorDict(d, batch_size=[B])

    # ------------------------------------------------------------------ observation of one _dqn_loss call
    def classify(self, calls) -> str:
        """Which batch a _dqn_loss call worked on, from the stub calls it made."""
        want_rows = tuple(range(self.B))
        hit = []
        for name, (ks, kn) in KIND.items():
            exp = {("actor", "q", (kn,) * self.B, want_rows), ("target", "pmf", (kn,) * self.B, want_rows),
                   ("actor", "log", (ks,) * self.B, want_rows)}
            if exp <= set(calls):
                hit.append(name)
        return hit[0] if len(hit) == 1 else "mixed"

    def ce(self, proj: torch.Tensor, name: str, taken: List[int]) -> Tuple[np.ndarray, np.ndarray]:
        """-sum proj * log q(action taken) in float64 (from the float32 log-pmf the stub handed out) and a
        rigorous float32 error bound for the code's product-and-sum."""
        ks, _ = KIND[name]
        lq = torch.stack([self.olog[ks][i, taken[i]] for i in range(self.B)]).double()
        terms = proj.double() * lq
        val = -terms.sum(1)
        tol = 1e-6 + 4.0 * (self.N + 2) * EPS32 * terms.abs().sum(1)
        return val.numpy(), tol.numpy()

    def hook_event(self, rec: dict, loss_rec, batches: Dict[str, dict], q: int, pden: int) -> dict:
        """One trace event from one hook record + the observed return value."""
        B, N = self.B, self.N
        status, out, calls = loss_rec
        name = self.classify(calls)
        ev = {"op": "loss", "set": name, "exc": "" if status == "ok" else str(out)[:200]}
        proj = rec["proj_dist"].detach().float().reshape(B, N)
        src = rec["target_q_dist"].detach().float().reshape(B, N)
        rew = rec["rewards"].detach().double().reshape(B)
        dn = rec["dones"].detach().float().reshape(B)
        ref_name = name if name in batches else next(iter(batches))
        ref = batches[ref_name]
        g = self.gamma_of.get(ref_name, 0.0)
        tol_m = q * pden * 1.25 * self.relerr              # 0 on dyadic supports: exact comparison
        tol_r = q * self.relerr
        if tol_m > 0.2:
            raise RuntimeError(f"support too far from the origin for the rounding bound (tol {tol_m} grid units)")
        ev["gq"] = exact_int(rec["gamma"], q)
        ev["m"] = [grid_int(v, q * pden, tol_m) for v in proj.reshape(-1).tolist()]
        ev["src"] = [[exact_int(v, pden) for v in row] for row in src.tolist()]
        ev["rew"] = [grid_int(v / self.scale - self.shift * (1.0 - (1 - ref["rows"][i][2]) * g), q, tol_r, OFF_GRID)
                     for i, v in enumerate(rew.tolist())]
        ev["dn"] = [exact_int(v, 1) for v in dn.tolist()]
        ev["rows"] = [{"p": list(r[0]), "rq": r[1], "d": r[2]} for r in ref["rows"]]
        ev["greedy_seen"] = [int(a) for a in rec["next_actions"].reshape(-1).tolist()]
        if status == "ok" and name in batches:
            val, tol = self.ce(proj, name, ref["taken"])
            got = out.detach().double().reshape(-1).numpy()
            ev["ce_ok"] = bool(got.shape == val.shape and np.all(np.abs(got - val) <= tol))
            ev["ce"] = [float(x) for x in val]
            ev["ce_seen"] = [float(x) for x in got]
        else:
            ev["ce_ok"] = False
            ev["ce"], ev["ce_seen"] = [], []
        return ev

    def reset_obs(self):
        self.calls, self.losses = [], []
        self.hooks.drain()


# ---------------------------------------------------------------------- M2(a): TLC cases -> real _dqn_loss
def rclass(case: dict, q: int) -> str:
    """Kind of input for violation signatures: does the clamp act on some row (reward outside the support)?"""
    lo, hi = q * case["vmin"], q * (case["vmin"] + case["N"] - 1)
    clipped = any(r["rq"] < lo or r["rq"] > hi for r in case["rows"])
    return ("reward-outside-support" if clipped else "reward-inside-support") + ("" if case["B"] == 1 else ":multi-row")


def support_class(scale: float, shift: float) -> str:
    """Suffix of violation signatures for cases run on an affine image of the specification's support."""
    if not (is_dyadic(scale) and is_dyadic(shift)):
        return ":nondyadic-support"
    return ":shifted-support" if shift else ""


class Replayer:
    """Replays dumped cases (inputs + the projection the spec demands) into the real _dqn_loss."""

    def __init__(self, q: int, pden: int, seed: int):
        self.q, self.pden, self.seed = q, pden, seed
        self.h: Dict[tuple, Harness] = {}
        self.rng = random.Random(seed)
        self.n = 0

    def harness(self, N, vmin, B, scale, shift, A) -> Harness:
        key = (N, vmin, B, scale, shift, A)
        if key not in self.h:
            h = Harness(N, vmin, B, scale=scale, shift=shift, seed=self.seed + len(self.h), A=A,
                        obs_shape=((4,) if len(self.h) % 3 else (2, 3)))
            base = {"one": {"rows": [([0] * (N - 1) + [self.pden], 0, 0)] * B, "greedy": [0] * B, "taken": [0] * B}}
            h.set_tables(self.rng, base, self.pden)
            self.h[key] = h
        return self.h[key]

    def run(self, case: dict, scale: float = 1.0, shift: float = 0.0, A: int = 3) -> Optional[dict]:
        """None if the real code agrees with the specification on this case, else a mismatch description."""
        q, pden = self.q, self.pden
        N, vmin, B, gq = case["N"], case["vmin"], case["B"], case["gq"]
        h = self.harness(N, vmin, B, scale, shift, A)
        self.n += 1
        rows = [(r["p"], r["rq"], r["d"]) for r in case["rows"]]
        batch = {"rows": rows, "greedy": [(self.n + i) % A for i in range(B)], "taken": [(self.n // 3 + 2 * i) % A for i in range(B)]}
        ks, kn = KIND["one"]
        for i, (p, rq, d) in enumerate(rows):
            g = batch["greedy"][i]
            h.qvals[kn][i] = h.greedy_q(g)
            for a in range(A):          # decoys for the other actions: same mass, all on one atom where p is smallest
                dec = [0] * N
                dec[min(range(N), key=lambda j: p[j])] = sum(p)
                h.tpmf[kn][i, a] = torch.tensor(p if a == g else dec, dtype=torch.float32) / pden
        exp = h.experiences("one", batch, q, gamma_eff=gq / q)
        h.reset_obs()
        info = {"case": case, "scale": scale, "shift": shift, "A": A, "greedy": batch["greedy"], "taken": batch["taken"]}
        try:
            h.agent._dqn_loss(exp["obs"], exp["action"], exp["reward"], exp["next_obs"], exp["done"], gq / q)
        except Exception as e:
            return dict(info, clause=f"Raises-{type(e).__name__}", detail=f"{type(e).__name__}: {e}"[:300])
        recs = [f for (nm, f) in h.hooks.drain() if nm == "rainbow.proj"]
        if len(recs) != 1:
            raise RuntimeError(f"expected one rainbow.proj hook record, got {len(recs)} (is AGILERL_VERIF=1 set?)")
        ev = h.hook_event(recs[0], h.losses[-1], {"one": batch}, q, pden)
        want = case["m"]
        info["observed"] = {k: ev[k] for k in ("m", "src", "gq", "set", "ce", "ce_seen", "greedy_seen")}
        if ev["set"] != "one":
            return dict(info, clause="OneBatch", detail=str(h.losses[-1][2]))
        if ev["src"] != [list(r[0]) for r in rows]:
            return dict(info, clause="Source", detail="target_q_dist is not the target network's distribution for the online-greedy action")
        if ev["m"] != want:
            z = [vmin + j for j in range(N)]
            for i in range(B):
                got = ev["m"][i * N:(i + 1) * N]
                if any(v < 0 for v in got):
                    return dict(info, clause="NonNeg", detail=f"row {i}: {got}")
                if sum(got) != q * sum(rows[i][0]):
                    return dict(info, clause="MassConserved", detail=f"row {i}: mass {sum(got)}/{q * pden} != source {sum(rows[i][0])}/{pden}")
            for i in range(B):
                got = ev["m"][i * N:(i + 1) * N]
                exp_m = want[i * N:(i + 1) * N]
                if sum(a * b for a, b in zip(got, z)) != sum(a * b for a, b in zip(exp_m, z)):
                    return dict(info, clause="MeanConserved", detail=f"row {i}: observed {got} expected {exp_m}")
            return dict(info, clause="Projection", detail=f"observed {ev['m']} expected {want}")
        if h.exact:
            # cross-entropy against the spec's m (exact on this grid, so proj == m/(q*pden) bit for bit)
            mt = torch.tensor(want, dtype=torch.float32).reshape(B, N) / (q * pden)
            val, tol = h.ce(mt, "one", batch["taken"])
            got = h.losses[-1][1].double().reshape(-1).numpy()
            ok = got.shape == val.shape and bool(np.all(np.abs(got - val) <= tol))
        else:                            # non-dyadic support: proj is the spec's m only up to float32 rounding
            val, got, ok = ev["ce"], ev["ce_seen"], ev["ce_ok"]
            val, got = np.asarray(val), np.asarray(got)
        if not ok:
            return dict(info, clause="CrossEntropy", detail=f"returned {got.tolist()} expected {val.tolist()}")
        return None


# ---------------------------------------------------------------------- M3: real learn() -> trace
def gen_rows(rng: random.Random, N: int, vmin: int, B: int, q: int, pden: int, step: int = 1) -> List[tuple]:
    """step = q: integer-valued rewards only (for the integer reward dtype)."""
    lo, hi = q * vmin, q * (vmin + N - 1)
    rows = []
    for i in range(B):
        w = [0] * N
        style = rng.randrange(4)
        for _ in range(pden + (rng.choice([-1, 0, 0, 1, 3]) if style == 3 else 0)):      # style 3: mass != 1
            j = rng.randrange(N) if style != 1 else rng.choice([0, N - 1, rng.randrange(N)])
            w[j] += 1
        x = rng.random()
        d = int(rng.random() < 0.3)
        if x < 0.2:
            rq = rng.choice([lo - q, lo - step, hi + step, hi + 3 * q])          # outside the support
        elif x < 0.3:
            rq, d = rng.choice([lo, hi]), 1                                       # terminal, exactly on v_min / v_max
        elif x < 0.55:
            rq = q * rng.randint(vmin, vmin + N - 1)                              # exactly on an atom
        else:
            rq = (rng.randint(lo, hi) // step) * step
        rows.append((w, rq, d))
    return rows


LEARN_DEFAULTS = {"scale": 1.0, "shift": 0.0, "vrange": (), "learns": 2, "wshape": "col", "A": 3, "obs_shape": (4,),
                  "prior_eps": 1e-6, "clone": 0, "bs_ctor": 0, "rdtype": "f32", "ddtype": "f32", "ashape": "f32col",
                  "container": "td", "idxshape": "flat", "top": 0}


def run_learn(*, N: int, vmin: int, B: int, gammaq: int, n: int, nstep: bool, combined: bool, per: bool,
              q: int, pden: int, seed: int, **opt) -> dict:
    """Real learn() calls on one real agent; returns one trace for C51_Trace.  Options: LEARN_DEFAULTS
    (top = 1: the last row of every batch has a reward above the support)."""
    o = dict(LEARN_DEFAULTS)
    unknown = set(opt) - set(o)
    if unknown:
        raise TypeError(f"run_learn: unknown options {unknown}")
    o.update(opt)
    rng = random.Random(seed)
    vrange = tuple(o["vrange"]) if o["vrange"] else None
    h = Harness(N, vmin, B, scale=o["scale"], shift=o["shift"], vrange=vrange, gamma=gammaq / q, n_step=n, combined=combined,
                seed=seed, prior_eps=o["prior_eps"], A=o["A"], obs_shape=tuple(o["obs_shape"]), clone=bool(o["clone"]),
                bs_ctor=(o["bs_ctor"] or None))
    vmin = h.vmin
    A = h.A
    cfg = {"N": N, "vmin": vmin, "B": B, "gammaq": gammaq, "n": n, "nstep": int(nstep), "combined": int(combined),
           "per": int(per), "seed": seed, "exact": int(h.exact)}
    cfg.update({k: (list(v) if isinstance(v, tuple) else v) for k, v in o.items()})
    cfg["scale"], cfg["shift"] = h.scale, h.shift
    g1, gn = gammaq / q, (gammaq / q) ** n
    step = q if o["rdtype"] == "i64" else 1
    evs: List[dict] = []
    for _ in range(o["learns"]):
        batches = {}
        for name in (["one", "n"] if nstep else ["one"]):
            batches[name] = {"rows": gen_rows(rng, N, vmin, B, q, pden, step), "greedy": [rng.randrange(A) for _ in range(B)],
                             "taken": [rng.randrange(A) for _ in range(B)]}
            if o["top"]:
                w, _, d = batches[name]["rows"][-1]
                batches[name]["rows"][-1] = (w, q * (vmin + N - 1) + 2 * q, d)
        if nstep:                                   # index-coupled sampling: both batches describe the same (obs, action)
            batches["n"]["taken"] = list(batches["one"]["taken"])
        h.set_tables(rng, batches, pden)
        idxs = torch.tensor([rng.randrange(1000) for _ in range(B)])
        if o["idxshape"] == "col":
            idxs = idxs.unsqueeze(1)                # what PrioritizedReplayBuffer.sample hands out
        w = torch.tensor([rng.choice([0.125, 0.25, 0.5, 1.0]) for _ in range(B)], dtype=torch.float32)
        weights = w.unsqueeze(1) if o["wshape"] == "col" else w
        kw = {k: o[k] for k in ("rdtype", "ddtype", "ashape", "container")}
        e1 = h.experiences("one", batches["one"], q, gamma_eff=g1, per=per, idxs=(idxs if (per or nstep) else None),
                           weights=weights, **kw)
        en = h.experiences("n", batches["n"], q, gamma_eff=gn, **kw) if nstep else None
        h.reset_obs()
        exc = ""
        out = (None, None, None)
        try:
            out = h.agent.learn(e1, n_experiences=en, per=per)
        except Exception as e:
            exc = f"{type(e).__name__}: {e}"[:300]
        recs = [f for (nm, f) in h.hooks.drain() if nm == "rainbow.proj"]
        total = np.zeros(B)
        tol = np.zeros(B)
        k = 0
        for lrec in h.losses:
            if lrec[0] == "ok":
                if k >= len(recs):
                    raise RuntimeError("a _dqn_loss call returned without a rainbow.proj hook record (is AGILERL_VERIF=1 set?)")
                ev = h.hook_event(recs[k], lrec, batches, q, pden)
                k += 1
                if ev["ce"]:
                    total += np.array(ev["ce"])
                    tol += h.ce(recs[k - 1]["proj_dist"].detach().float().reshape(B, N), ev["set"], batches[ev["set"]]["taken"])[1]
            else:
                ev = {"op": "loss", "set": "", "exc": str(lrec[1])[:200], "gq": -1, "m": [], "src": [], "rew": [],
                      "dn": [], "rows": [], "ce_ok": False}
            evs.append(ev)
            if ev["exc"]:
                break
        if evs and evs[-1]["exc"]:
            break
        loss, ridx, prio = out
        lev = {"op": "learn", "exc": exc, "per": int(per)}
        if loss is not None:                        # (a JSON null cannot be read by TLC's JsonDeserialize)
            lev["loss"] = float(loss)
        if per and not exc:
            eps = float(o["prior_eps"])                 # the configured value, not what the agent says it has
            pr = np.asarray(prio, dtype=np.float64).reshape(-1) if prio is not None else np.zeros(0)
            lev["prio_ok"] = bool(pr.shape == total.shape and
                                  np.all(np.abs((pr - eps) - total) <= tol + 1e-6 + 4 * EPS32 * (np.abs(total) + eps)))
            lev["prio_seen"] = [float(x) for x in pr]
            lev["prio_want"] = [float(x + eps) for x in total]
            lev["idx_ok"] = bool(ridx is not None and torch.equal(torch.as_tensor(ridx).reshape(-1), idxs.reshape(-1)))
        else:
            lev["prio_ok"] = True            # nothing is returned as priority without PER
            lev["idx_ok"] = True
        evs.append(lev)
    return {"cfg": cfg, "ev": evs}


def run_learn_cfg(c: dict, q: int, pden: int) -> dict:
    """Re-run a recorded learn() trace from its cfg (./check C18 --replay)."""
    opt = {k: c[k] for k in LEARN_DEFAULTS if k in c}
    return run_learn(N=c["N"], vmin=c["vmin"], B=c["B"], gammaq=c["gammaq"], n=c["n"], nstep=bool(c["nstep"]),
                     combined=bool(c["combined"]), per=bool(c["per"]), q=q, pden=pden, seed=c["seed"], **opt)


# ---------------------------------------------------------------------- real networks, no stubs (float run)
OBS_KINDS = ("vec", "box2d", "discrete", "multidiscrete", "image", "dict")


def _obs_space(kind: str, spaces):
    if kind == "vec":
        return spaces.Box(-1.0, 1.0, (4,), dtype=np.float32)
    if kind == "box2d":
        return spaces.Box(-1.0, 1.0, (2, 3), dtype=np.float32)
    if kind == "discrete":
        return spaces.Discrete(5)
    if kind == "multidiscrete":
        return spaces.MultiDiscrete([3, 4])
    if kind == "image":
        return spaces.Box(0, 255, (3, 16, 16), dtype=np.uint8)
    if kind == "dict":
        return spaces.Dict({"a": spaces.Box(-1.0, 1.0, (3,), dtype=np.float32), "b": spaces.Discrete(4)})
    raise ValueError(kind)


def _obs_batch(kind: str, B: int, TensorDict):
    if kind == "vec":
        return torch.rand(B, 4) * 2 - 1
    if kind == "box2d":
        return torch.rand(B, 2, 3) * 2 - 1
    if kind == "discrete":
        return torch.randint(0, 5, (B, 1)).float()
    if kind == "multidiscrete":
        return torch.stack([torch.randint(0, 3, (B,)), torch.randint(0, 4, (B,))], 1).float()
    if kind == "image":
        return torch.randint(0, 256, (B, 3, 16, 16)).float()
    return TensorDict({"a": torch.rand(B, 3) * 2 - 1, "b": torch.randint(0, 4, (B, 1)).float()}, batch_size=[B])


def ref_projection(src: torch.Tensor, tz: torch.Tensor, v_min: float, delta: float, N: int) -> torch.Tensor:
    """The redistribution of the property in float64: every source atom's mass goes to the two atoms enclosing its
    target position, in proportion to proximity (defined independently of the code's floor / ceil / fix-up)."""
    b = ((tz - v_min) / delta).clamp(0, N - 1)
    lo = b.floor().clamp(max=N - 2) if N > 1 else b.floor()
    frac = b - lo
    out = torch.zeros_like(src)
    out.scatter_add_(1, lo.long(), src * (1 - frac))
    out.scatter_add_(1, (lo.long() + 1).clamp(max=N - 1), src * frac)
    return out


REAL_DEFAULTS = {"obs": "vec", "A": 3, "n": 1, "nstep": 0, "combined": 0, "per": 1, "tau": 1e-3, "noise_std": 0.5,
                 "prior_eps": 1e-6, "clone": 0, "learns": 2, "perturb": 0.5}


def run_real_learn(*, N: int, v_min, v_max, B: int, gamma: float, seed: int, **opt) -> Optional[str]:
    """learn() on an agent whose networks are NOT stubbed (clamped softmax: source mass != 1; noisy layers; real encoders for
    several observation spaces), several times in a row (optimiser step, soft update with tau, noise reset in between).
    Before every learn() the harness evaluates the public forwards of the same networks; every hook record must have
    source = actor_target(next_obs, q=False)[online-greedy action], projection = the float64 reference redistribution
    (mass, mean and element-wise, up to float32 rounding), and the returned priorities / element-wise losses must be the
    cross-entropies.  Returns None or 'Clause: detail'."""
    o = dict(REAL_DEFAULTS)
    unknown = set(opt) - set(o)
    if unknown:
        raise TypeError(f"run_real_learn: unknown options {unknown}")
    o.update(opt)
    spaces, TensorDict, RainbowDQN, hooks = _imports()
    torch.manual_seed(seed)
    rng = random.Random(seed)
    A, n, nstep, combined, per = o["A"], o["n"], bool(o["nstep"]), bool(o["combined"]), bool(o["per"])
    ag = RainbowDQN(_obs_space(o["obs"], spaces), spaces.Discrete(A), batch_size=B, num_atoms=N, v_min=v_min, v_max=v_max,
                    gamma=gamma, n_step=n, combined_reward=combined, tau=o["tau"], noise_std=o["noise_std"],
                    prior_eps=o["prior_eps"], lr=1e-2,
                    net_config={"latent_dim": 8, "head_config": {"hidden_size": [32]}})
    if o["perturb"]:
        for p_ in list(ag.actor.parameters()) + list(ag.actor_target.parameters()):
            with torch.no_grad():
                p_.add_(torch.randn_like(p_) * o["perturb"])            # target and online weights differ, peaked pmfs
    if o["clone"]:
        ag = ag.clone()
    delta = (v_max - v_min) / (N - 1)
    z = ag.support.double()
    mag = max(abs(v_min), abs(v_max)) / delta + N
    tol_p = 1e-5 + 1e-6 * mag                                             # float32 rounding of b times the source mass
    seen: List[tuple] = []
    real_loss = ag._dqn_loss

    def observed(*a, **k):
        out = real_loss(*a, **k)
        seen.append(out.detach().clone())
        return out

    ag._dqn_loss = observed

    def batch():
        lo, hi = float(v_min) - delta, float(v_max) + delta
        rew, done = [], []
        for _ in range(B):
            x = rng.random()
            d = float(rng.random() < 0.3)
            if x < 0.25:
                r = float(ag.support[rng.randrange(N)])                  # exactly on an atom
            elif x < 0.35:
                r, d = float(rng.choice([v_min, v_max])), 1.0             # terminal on an end of the support
            elif x < 0.5:
                r = rng.choice([lo, hi, float(v_max) + 3 * delta])        # outside
            else:
                r = rng.uniform(lo, hi)
            rew.append([r])
            done.append([d])
        return {"obs": _obs_batch(o["obs"], B, TensorDict), "next_obs": _obs_batch(o["obs"], B, TensorDict),
                "reward": torch.tensor(rew, dtype=torch.float32), "done": torch.tensor(done, dtype=torch.float32)}

    for li in range(o["learns"]):
        act = torch.tensor([[float(rng.randrange(A))] for _ in range(B)])
        names = (["one"] if (combined or not nstep) else []) + (["n"] if nstep else [])
        data = {"one": batch()}
        if nstep:
            data["n"] = batch()
        for d_ in data.values():
            d_["action"] = act
        idxs = torch.arange(B).unsqueeze(1)
        data["one"]["idxs"] = idxs
        if per:
            data["one"]["weights"] = torch.tensor([[rng.choice([0.1, 0.3, 0.7, 1.0])] for _ in range(B)])
        want = {}
        with torch.no_grad():
            for nm in names:
                d_ = data[nm]
                nx, ob = ag.preprocess_observation(d_["next_obs"]), ag.preprocess_observation(d_["obs"])
                greedy = ag.actor(nx).argmax(1)
                src = ag.actor_target(nx, q=False)[range(B), greedy]
                logq = ag.actor(ob, q=False, log=True)[range(B), act.squeeze(1).long()]
                want[nm] = (src, logq)
        hooks.drain()
        del seen[:]
        where = f"learn #{li + 1}"
        try:
            loss, ridx, prio = ag.learn(TensorDict(data["one"], batch_size=[B]),
                                        n_experiences=(TensorDict(data["n"], batch_size=[B]) if nstep else None), per=per)
        except Exception as e:
            return f"Raises-{type(e).__name__}: {where}: {e}"[:300]
        recs = [f for (nm, f) in hooks.drain() if nm == "rainbow.proj"]
        if len(recs) != len(names) or len(seen) != len(names):
            return f"Terms: {where}: {len(recs)} loss terms computed, {len(names)} configured ({names})"
        total = torch.zeros(B, dtype=torch.float64)
        ttol = torch.zeros(B, dtype=torch.float64)
        for nm, rec, out in zip(names, recs, seen):
            d_ = data[nm]
            src, logq = want[nm]
            g = gamma ** n if nm == "n" else gamma
            if not torch.equal(rec["rewards"].float().reshape(-1), d_["reward"].reshape(-1)):
                return f"OneBatch: {where}: the {nm} term was not computed from the {nm} batch's rewards"
            if abs(float(rec["gamma"]) - g) > 1e-12:
                return f"Gamma: {where}: the {nm} term discounts with {float(rec['gamma'])!r}, expected {g!r}"
            if rec["target_q_dist"].shape != src.shape or not torch.equal(rec["target_q_dist"], src):
                return f"Source: {where}: target_q_dist is not actor_target(next_obs, q=False)[greedy action of actor(next_obs)]"
            proj = rec["proj_dist"].double()
            tz = (d_["reward"].double() + (1 - d_["done"].double()) * g * z).clamp(float(v_min), float(v_max))
            mass = src.double().sum(1)
            mass_err = (proj.sum(1) - mass).abs().max().item()
            mean_err = ((proj * z).sum(1) - (src.double() * tz).sum(1)).abs().max().item()
            if not (mass_err <= 1e-5):
                return f"MassConserved: {where}: |mass(proj) - mass(source)| = {mass_err:.3g}"
            if not (mean_err <= (1e-5 + tol_p) * max(1.0, float(z.abs().max()), delta * N)):
                return f"MeanConserved: {where}: |mean(proj) - mean(clamped target atoms)| = {mean_err:.3g}"
            ref = ref_projection(src.double(), tz, float(v_min), delta, N)
            perr = (proj - ref).abs().max().item()
            if not (perr <= tol_p * max(1.0, mass.max().item())):
                return f"Projection: {where}: max |proj - reference redistribution| = {perr:.3g}"
            terms = proj * logq.double()
            ce = -terms.sum(1)
            tol = 1e-6 + 4.0 * (N + 2) * EPS32 * terms.abs().sum(1)
            if out.shape != ce.shape or ((ce - out.double()).abs() > tol).any().item():
                return f"CrossEntropy: {where}: returned element-wise loss is not -sum proj * log q(action taken)"
            total += ce
            ttol += tol
        if per:
            eps = float(o["prior_eps"])
            pr = torch.as_tensor(np.asarray(prio, dtype=np.float64)).reshape(-1)
            if pr.shape != total.shape or (((pr - eps) - total).abs() > ttol + 1e-6 + 4 * EPS32 * (total.abs() + eps)).any().item():
                return f"Priority: {where}: new priorities are not the summed cross-entropies + prior_eps"
    return None


def run_real_networks(*, N: int, vmin: int, B: int, gamma: float, seed: int, q: int = 4) -> Optional[str]:
    """Kept for replaying evidence recorded before run_real_learn existed."""
    return run_real_learn(N=N, v_min=vmin, v_max=vmin + N - 1, B=B, gamma=gamma, seed=seed)
