"""Driver for C18 (specs/C51.tla): the REAL RainbowDQN._dqn_loss / learn with stubbed network *inputs*.

What is real: RainbowDQN construction, learn(), _dqn_loss(), preprocess_observation, the optimiser
step, soft update, noise reset.  What is stubbed (inputs only): the forward of agent.actor and
agent.actor_target, which return values from tables chosen by the driver, keyed by the *content* of
the observation rows they are called with (row id, batch kind), so that a call on the wrong batch or
in the wrong role yields different numbers:

  actor(x)                      -> q-values whose argmax is the intended greedy next action
  actor_target(x, q=False)      -> per action a weight vector over the atoms (the spec's p for the
                                   greedy action of a next-observation row, decoys elsewhere)
  actor(x, q=False, log=True)   -> log of a strictly positive pmf per action (+ 0 * the real
                                   network's output, so that the real backward pass runs)

The projected distribution is observed through the guarded hook ("rainbow.proj",
agilerl.utils.verif_hooks); the element-wise loss by wrapping the bound _dqn_loss (observation only).
Observation layout: obs = [row, kind, 7, 0]; kind 0/1 = obs/next_obs of the 1-step batch,
2/3 = obs/next_obs of the n-step batch.
"""
from __future__ import annotations

import math
import random
from typing import Dict, List, Optional, Tuple

import numpy as np
import torch

torch.set_num_threads(1)

A = 3                                   # number of actions of the stub environment
KIND = {"one": (0, 1), "n": (2, 3)}     # batch -> (kind of obs, kind of next_obs)
EPS32 = 2.0 ** -24


def _imports():
    from gymnasium import spaces
    from tensordict import TensorDict
    from agilerl.algorithms.dqn_rainbow import RainbowDQN
    from agilerl.utils import verif_hooks
    return spaces, TensorDict, RainbowDQN, verif_hooks


def exact_int(x: float, den: float) -> int:
    """x*den if that is an integer, else -1 (off-grid marker)."""
    v = float(x) * den
    iv = round(v)
    return int(iv) if iv == v and abs(iv) < 2 ** 30 else -1


class Harness:
    """One real agent + stub tables."""

    def __init__(self, N: int, vmin: int, B: int, *, scale: float = 1.0, gamma: float = 0.5, n_step: int = 1,
                 combined: bool = False, seed: int = 0, prior_eps: float = 1e-6):
        spaces, TensorDict, RainbowDQN, hooks = _imports()
        self.TensorDict, self.hooks = TensorDict, hooks
        self.N, self.vmin, self.B, self.scale = N, vmin, B, scale
        torch.manual_seed(seed)
        np.random.seed(seed % (2 ** 32))
        v_min = vmin * scale
        v_max = (vmin + N - 1) * scale
        if float(v_min).is_integer() and float(v_max).is_integer() and seed % 2 == 0:
            v_min, v_max = int(v_min), int(v_max)          # the constructor accepts int and float bounds
        self.agent = RainbowDQN(
            spaces.Box(-1.0, 1.0e6, (4,), dtype=np.float32), spaces.Discrete(A), batch_size=B, num_atoms=N,
            v_min=v_min, v_max=v_max, gamma=gamma, n_step=n_step, combined_reward=combined, prior_eps=prior_eps,
            lr=1e-3, net_config={"latent_dim": 8, "encoder_config": {"hidden_size": [16]},
                                 "head_config": {"hidden_size": [64]}})
        ag = self.agent
        want = torch.tensor([(vmin + j) * scale for j in range(N)], dtype=torch.float32)
        if not (torch.equal(ag.support.cpu(), want) and float(ag.delta_z) == float(scale)):
            raise RuntimeError(f"support of the real agent is not the intended grid: {ag.support} delta={ag.delta_z}")
        self.calls: List[tuple] = []
        self.qvals: Dict[int, torch.Tensor] = {}
        self.tpmf: Dict[int, torch.Tensor] = {}
        self.olog: Dict[int, torch.Tensor] = {}
        self.losses: List[object] = []
        self._real_actor_fwd = ag.actor.forward
        self._real_target_fwd = ag.actor_target.forward
        ag.actor.forward = self._actor_fwd
        ag.actor_target.forward = self._target_fwd
        real_loss = ag._dqn_loss

        def observed_loss(*a, **k):
            n0 = len(self.calls)
            try:
                out = real_loss(*a, **k)
            except Exception as e:          # recorded, then re-raised: learn() must see what the code does
                self.losses.append(("exc", f"{type(e).__name__}: {e}", self.calls[n0:]))
                raise
            self.losses.append(("ok", out.detach().clone(), self.calls[n0:]))
            return out

        ag._dqn_loss = observed_loss

    # ------------------------------------------------------------------ stubs
    def _lookup(self, table: Dict[int, torch.Tensor], x: torch.Tensor) -> torch.Tensor:
        rows = x[:, 0].long().tolist()
        kinds = x[:, 1].long().tolist()
        return torch.stack([table[kd][r] for kd, r in zip(kinds, rows)]), tuple(kinds), tuple(rows)

    def _actor_fwd(self, x, q=True, log=False):
        if q:
            out, kinds, rows = self._lookup(self.qvals, x)
            self.calls.append(("actor", "q", kinds, rows))
            return out
        out, kinds, rows = self._lookup(self.olog, x)
        self.calls.append(("actor", "log" if log else "pmf", kinds, rows))
        real = self._real_actor_fwd(x, q=False, log=True)
        out = out + 0.0 * real                       # exact: real is finite; keeps the autograd graph real
        return out if log else out.exp()

    def _target_fwd(self, x, q=True, log=False):
        out, kinds, rows = self._lookup(self.tpmf, x)
        self.calls.append(("target", "q" if q else ("log" if log else "pmf"), kinds, rows))
        if q:
            return (out * self.agent.support).sum(2)
        return out.log() if log else out

    # ------------------------------------------------------------------ tables
    def set_tables(self, rng: random.Random, batches: Dict[str, dict], pden: int):
        """batches[name] = {rows: [(p numerators, rq, d)], greedy: [a], taken: [a]}.  Decoys are random."""
        N, B = self.N, self.B
        self.qvals, self.tpmf, self.olog = {}, {}, {}
        for kind in range(4):
            qv = torch.zeros(B, A)
            tp = torch.zeros(B, A, N)
            for i in range(B):
                perm = list(range(A))
                rng.shuffle(perm)
                for a in range(A):
                    qv[i, a] = float(perm[a]) - 1.0
                    w = [0] * N
                    for _ in range(pden):
                        w[rng.randrange(N)] += 1
                    tp[i, a] = torch.tensor(w, dtype=torch.float32) / pden
            q = torch.tensor([[[1 + rng.randrange(15) for _ in range(N)] for _ in range(A)] for _ in range(B)], dtype=torch.float32)
            q = q / q.sum(2, keepdim=True)
            self.qvals[kind], self.tpmf[kind], self.olog[kind] = qv, tp, q.log()
        for name, b in batches.items():
            ks, kn = KIND[name]
            for i, (p, rq, d) in enumerate(b["rows"]):
                g = b["greedy"][i]
                self.qvals[kn][i] = torch.tensor([1.0 if a == g else -float(1 + abs(a - g)) for a in range(A)])
                self.tpmf[kn][i, g] = torch.tensor(p, dtype=torch.float32) / pden

    def experiences(self, name: str, b: dict, q: int, *, per: bool = False, idxs=None, weights=None):
        B = self.B
        ks, kn = KIND[name]
        obs = torch.tensor([[i, ks, 7, 0] for i in range(B)], dtype=torch.float32)
        nobs = torch.tensor([[i, kn, 7, 0] for i in range(B)], dtype=torch.float32)
        d = {"obs": obs, "action": torch.tensor([[float(a)] for a in b["taken"]], dtype=torch.float32),
             "reward": torch.tensor([[r[1] / q * self.scale] for r in b["rows"]], dtype=torch.float32),
             "next_obs": nobs, "done": torch.tensor([[float(r[2])] for r in b["rows"]], dtype=torch.float32)}
        if idxs is not None:
            d["idxs"] = idxs
        if per:
            d["weights"] = weights
        return self.TensorDict(d, batch_size=[B])

    # ------------------------------------------------------------------ observation of one _dqn_loss call
    def classify(self, calls) -> str:
        """Which batch a _dqn_loss call worked on, from the stub calls it made."""
        want_rows = tuple(range(self.B))
        hit = []
        for name, (ks, kn) in KIND.items():
            exp = {("actor", "q", (kn,) * self.B, want_rows), ("target", "pmf", (kn,) * self.B, want_rows),
                   ("actor", "log", (ks,) * self.B, want_rows)}
            if exp <= set(calls):
                hit.append(name)
        return hit[0] if len(hit) == 1 else "mixed"

    def ce(self, proj: torch.Tensor, name: str, taken: List[int]) -> Tuple[np.ndarray, np.ndarray]:
        """-sum proj * log q(action taken) in float64 (from the float32 log-pmf the stub handed out) and a
        rigorous float32 error bound for the code's product-and-sum."""
        ks, _ = KIND[name]
        lq = torch.stack([self.olog[ks][i, taken[i]] for i in range(self.B)]).double()
        terms = proj.double() * lq
        val = -terms.sum(1)
        tol = 1e-6 + 4.0 * (self.N + 2) * EPS32 * terms.abs().sum(1)
        return val.numpy(), tol.numpy()

    def hook_event(self, rec: dict, loss_rec, batches: Dict[str, dict], q: int, pden: int) -> dict:
        """One trace event from one hook record + the observed return value."""
        B, N = self.B, self.N
        status, out, calls = loss_rec
        name = self.classify(calls)
        ev = {"op": "loss", "set": name, "exc": "" if status == "ok" else str(out)[:200]}
        proj = rec["proj_dist"].detach().float().reshape(B, N)
        src = rec["target_q_dist"].detach().float().reshape(B, N)
        rew = rec["rewards"].detach().float().reshape(B)
        dn = rec["dones"].detach().float().reshape(B)
        ev["gq"] = exact_int(rec["gamma"], q)
        ev["m"] = [exact_int(v, q * pden) for v in proj.reshape(-1).tolist()]
        ev["src"] = [[exact_int(v, pden) for v in row] for row in src.tolist()]
        ev["rew"] = [exact_int(v / self.scale, q) for v in rew.tolist()]
        ev["dn"] = [exact_int(v, 1) for v in dn.tolist()]
        ref = batches.get(name) or batches[next(iter(batches))]
        ev["rows"] = [{"p": list(r[0]), "rq": r[1], "d": r[2]} for r in ref["rows"]]
        ev["greedy_seen"] = [int(a) for a in rec["next_actions"].reshape(-1).tolist()]
        if status == "ok" and name in batches:
            val, tol = self.ce(proj, name, ref["taken"])
            got = out.detach().double().reshape(-1).numpy()
            ev["ce_ok"] = bool(got.shape == val.shape and np.all(np.abs(got - val) <= tol))
            ev["ce"] = [float(x) for x in val]
            ev["ce_seen"] = [float(x) for x in got]
        else:
            ev["ce_ok"] = False
            ev["ce"], ev["ce_seen"] = [], []
        return ev

    def reset_obs(self):
        self.calls, self.losses = [], []
        self.hooks.drain()


# ---------------------------------------------------------------------- M2(a): TLC cases -> real _dqn_loss
def rclass(case: dict, q: int) -> str:
    """Kind of input for violation signatures: does the clamp act on some row (reward outside the support)?"""
    lo, hi = q * case["vmin"], q * (case["vmin"] + case["N"] - 1)
    clipped = any(r["rq"] < lo or r["rq"] > hi for r in case["rows"])
    return ("reward-outside-support" if clipped else "reward-inside-support") + ("" if case["B"] == 1 else ":multi-row")


class Replayer:
    """Replays dumped cases (inputs + the projection the spec demands) into the real _dqn_loss."""

    def __init__(self, q: int, pden: int, seed: int):
        self.q, self.pden, self.seed = q, pden, seed
        self.h: Dict[tuple, Harness] = {}
        self.rng = random.Random(seed)
        self.n = 0

    def harness(self, N, vmin, B, scale) -> Harness:
        key = (N, vmin, B, scale)
        if key not in self.h:
            h = Harness(N, vmin, B, scale=scale, seed=self.seed + len(self.h))
            base = {"one": {"rows": [([0] * (N - 1) + [self.pden], 0, 0)] * B, "greedy": [0] * B, "taken": [0] * B}}
            h.set_tables(self.rng, base, self.pden)
            self.h[key] = h
        return self.h[key]

    def run(self, case: dict, scale: float = 1.0) -> Optional[dict]:
        """None if the real code agrees with the specification on this case, else a mismatch description."""
        q, pden = self.q, self.pden
        N, vmin, B, gq = case["N"], case["vmin"], case["B"], case["gq"]
        h = self.harness(N, vmin, B, scale)
        self.n += 1
        rows = [(r["p"], r["rq"], r["d"]) for r in case["rows"]]
        batch = {"rows": rows, "greedy": [(self.n + i) % A for i in range(B)], "taken": [(self.n // 3 + 2 * i) % A for i in range(B)]}
        ks, kn = KIND["one"]
        for i, (p, rq, d) in enumerate(rows):
            g = batch["greedy"][i]
            h.qvals[kn][i] = torch.tensor([1.0 if a == g else -float(1 + abs(a - g)) for a in range(A)])
            for a in range(A):          # decoys for the other actions: same mass, all on one atom where p is smallest
                dec = [0] * N
                dec[min(range(N), key=lambda j: p[j])] = sum(p)
                h.tpmf[kn][i, a] = torch.tensor(p if a == g else dec, dtype=torch.float32) / pden
        exp = h.experiences("one", batch, q)
        h.reset_obs()
        info = {"case": case, "scale": scale, "greedy": batch["greedy"], "taken": batch["taken"]}
        try:
            h.agent._dqn_loss(exp["obs"], exp["action"], exp["reward"], exp["next_obs"], exp["done"], gq / q)
        except Exception as e:
            return dict(info, clause="Raises", detail=f"{type(e).__name__}: {e}"[:300])
        recs = [f for (nm, f) in h.hooks.drain() if nm == "rainbow.proj"]
        if len(recs) != 1:
            raise RuntimeError(f"expected one rainbow.proj hook record, got {len(recs)} (is AGILERL_VERIF=1 set?)")
        ev = h.hook_event(recs[0], h.losses[-1], {"one": batch}, q, pden)
        want = case["m"]
        info["observed"] = {k: ev[k] for k in ("m", "src", "gq", "set", "ce", "ce_seen", "greedy_seen")}
        if ev["set"] != "one":
            return dict(info, clause="OneBatch", detail=str(h.losses[-1][2]))
        if ev["src"] != [list(r[0]) for r in rows]:
            return dict(info, clause="Source", detail="target_q_dist is not the target network's distribution for the online-greedy action")
        if ev["m"] != want:
            z = [vmin + j for j in range(N)]
            for i in range(B):
                got = ev["m"][i * N:(i + 1) * N]
                if any(v < 0 for v in got):
                    return dict(info, clause="NonNeg", detail=f"row {i}: {got}")
                if sum(got) != q * sum(rows[i][0]):
                    return dict(info, clause="MassConserved", detail=f"row {i}: mass {sum(got)}/{q * pden} != source {sum(rows[i][0])}/{pden}")
            for i in range(B):
                got = ev["m"][i * N:(i + 1) * N]
                exp_m = want[i * N:(i + 1) * N]
                if sum(a * b for a, b in zip(got, z)) != sum(a * b for a, b in zip(exp_m, z)):
                    return dict(info, clause="MeanConserved", detail=f"row {i}: observed {got} expected {exp_m}")
            return dict(info, clause="Projection", detail=f"observed {ev['m']} expected {want}")
        # cross-entropy against the spec's m (exact on this grid, so proj == m/(q*pden) bit for bit)
        mt = torch.tensor(want, dtype=torch.float32).reshape(B, N) / (q * pden)
        val, tol = h.ce(mt, "one", batch["taken"])
        got = h.losses[-1][1].double().reshape(-1).numpy()
        if got.shape != val.shape or not np.all(np.abs(got - val) <= tol):
            return dict(info, clause="CrossEntropy", detail=f"returned {got.tolist()} expected {val.tolist()}")
        return None


# ---------------------------------------------------------------------- M3: real learn() -> trace
def gen_rows(rng: random.Random, N: int, vmin: int, B: int, q: int, pden: int) -> List[tuple]:
    lo, hi = q * vmin, q * (vmin + N - 1)
    rows = []
    for _ in range(B):
        w = [0] * N
        style = rng.randrange(4)
        for _ in range(pden + (rng.choice([-1, 0, 0, 1, 3]) if style == 3 else 0)):      # style 3: mass != 1
            j = rng.randrange(N) if style != 1 else rng.choice([0, N - 1, rng.randrange(N)])
            w[j] += 1
        x = rng.random()
        if x < 0.2:
            rq = rng.choice([lo - q, lo - 1, hi + 1, hi + 3 * q])                # outside the support
        elif x < 0.5:
            rq = q * rng.randint(vmin, vmin + N - 1)                              # exactly on an atom
        else:
            rq = rng.randint(lo, hi)
        rows.append((w, rq, int(rng.random() < 0.3)))
    return rows


def run_learn(*, N: int, vmin: int, B: int, gammaq: int, n: int, nstep: bool, combined: bool, per: bool,
              q: int, pden: int, seed: int, scale: float = 1.0, learns: int = 2, wshape: str = "col") -> dict:
    """Real learn() calls on one real agent; returns one trace for C51_Trace."""
    rng = random.Random(seed)
    h = Harness(N, vmin, B, scale=scale, gamma=gammaq / q, n_step=n, combined=combined, seed=seed)
    cfg = {"N": N, "vmin": vmin, "B": B, "gammaq": gammaq, "n": n, "nstep": int(nstep), "combined": int(combined),
           "per": int(per), "scale": scale, "seed": seed, "wshape": wshape, "learns": learns}
    evs: List[dict] = []
    for _ in range(learns):
        batches = {}
        for name in (["one", "n"] if nstep else ["one"]):
            batches[name] = {"rows": gen_rows(rng, N, vmin, B, q, pden), "greedy": [rng.randrange(A) for _ in range(B)],
                             "taken": [rng.randrange(A) for _ in range(B)]}
        if nstep:                                   # index-coupled sampling: both batches describe the same (obs, action)
            batches["n"]["taken"] = list(batches["one"]["taken"])
        h.set_tables(rng, batches, pden)
        idxs = torch.tensor([rng.randrange(1000) for _ in range(B)])
        w = torch.tensor([rng.choice([0.125, 0.25, 0.5, 1.0]) for _ in range(B)], dtype=torch.float32)
        weights = w.unsqueeze(1) if wshape == "col" else w
        e1 = h.experiences("one", batches["one"], q, per=per, idxs=(idxs if (per or nstep) else None), weights=weights)
        en = h.experiences("n", batches["n"], q) if nstep else None
        h.reset_obs()
        exc = ""
        out = (None, None, None)
        try:
            out = h.agent.learn(e1, n_experiences=en, per=per)
        except Exception as e:
            exc = f"{type(e).__name__}: {e}"[:300]
        recs = [f for (nm, f) in h.hooks.drain() if nm == "rainbow.proj"]
        total = np.zeros(B)
        tol = np.zeros(B)
        k = 0
        for lrec in h.losses:
            if lrec[0] == "ok":
                if k >= len(recs):
                    raise RuntimeError("a _dqn_loss call returned without a rainbow.proj hook record (is AGILERL_VERIF=1 set?)")
                ev = h.hook_event(recs[k], lrec, batches, q, pden)
                k += 1
                if ev["ce"]:
                    total += np.array(ev["ce"])
                    tol += h.ce(recs[k - 1]["proj_dist"].detach().float().reshape(B, N), ev["set"], batches[ev["set"]]["taken"])[1]
            else:
                ev = {"op": "loss", "set": h.classify(lrec[2]), "exc": str(lrec[1])[:200], "gq": -1, "m": [], "src": [], "rew": [],
                      "dn": [], "rows": [], "ce_ok": False}
            evs.append(ev)
            if ev["exc"]:
                break
        if evs and evs[-1]["exc"]:
            break
        loss, ridx, prio = out
        lev = {"op": "learn", "exc": exc, "per": int(per), "loss": (float(loss) if loss is not None else None)}
        if per and not exc:
            pr = np.asarray(prio, dtype=np.float64).reshape(-1) if prio is not None else np.zeros(0)
            lev["prio_ok"] = bool(pr.shape == total.shape and np.all(np.abs((pr - h.agent.prior_eps) - total) <= tol + 1e-6))
            lev["prio_seen"] = [float(x) for x in pr]
            lev["prio_want"] = [float(x + h.agent.prior_eps) for x in total]
            lev["idx_ok"] = bool(ridx is not None and torch.equal(torch.as_tensor(ridx).reshape(-1), idxs))
        else:
            lev["prio_ok"] = True            # nothing is returned as priority without PER
            lev["idx_ok"] = True
        evs.append(lev)
    return {"cfg": cfg, "ev": evs}


# ---------------------------------------------------------------------- real networks, no stubs (float run)
def run_real_networks(*, N: int, vmin: int, B: int, gamma: float, seed: int, q: int = 4) -> Optional[str]:
    """The unstubbed networks (softmax clamped at 1e-3, so the source mass is not 1): the hook's source must be
    the target network's output for the online network's greedy action, and mass / mean must be conserved
    up to float32 rounding.  Returns None or a description of what failed."""
    spaces, TensorDict, RainbowDQN, hooks = _imports()
    torch.manual_seed(seed)
    rng = random.Random(seed)
    ag = RainbowDQN(spaces.Box(-1.0, 1.0, (4,), dtype=np.float32), spaces.Discrete(A), batch_size=B, num_atoms=N,
                    v_min=vmin, v_max=vmin + N - 1, gamma=gamma,
                    net_config={"latent_dim": 8, "encoder_config": {"hidden_size": [16]}, "head_config": {"hidden_size": [64]}})
    for p_ in list(ag.actor.parameters()) + list(ag.actor_target.parameters()):
        with torch.no_grad():
            p_.add_(torch.randn_like(p_) * 0.5)                    # target and online weights differ
    obs, nobs = torch.rand(B, 4) * 2 - 1, torch.rand(B, 4) * 2 - 1
    rew = torch.tensor([[rng.randint(q * (vmin - 1), q * (vmin + N)) / q] for _ in range(B)], dtype=torch.float32)
    done = torch.tensor([[float(rng.random() < 0.3)] for _ in range(B)])
    act = torch.tensor([[float(rng.randrange(A))] for _ in range(B)])
    hooks.drain()
    with torch.no_grad():
        greedy = ag.actor(nobs).argmax(1)
        src = ag.actor_target(nobs, q=False)[range(B), greedy]
        logq = ag.actor(obs, q=False, log=True)[range(B), act.squeeze(1).long()]
    try:
        out = ag._dqn_loss(obs, act, rew, nobs, done, gamma)
    except Exception as e:
        return f"Raises: {type(e).__name__}: {e}"[:300]
    rec = [f for (nm, f) in hooks.drain() if nm == "rainbow.proj"][-1]
    if not torch.equal(rec["target_q_dist"], src):
        return "Source: target_q_dist is not actor_target(next_obs, q=False)[greedy action of actor(next_obs)]"
    proj = rec["proj_dist"].double()
    z = ag.support.double()
    tz = (rew.double() + (1 - done.double()) * gamma * z).clamp(vmin, vmin + N - 1)
    mass_err = (proj.sum(1) - src.double().sum(1)).abs().max().item()
    mean_err = ((proj * z).sum(1) - (src.double() * tz).sum(1)).abs().max().item()
    if mass_err > 1e-5:
        return f"MassConserved: |mass(proj) - mass(source)| = {mass_err:.3g}"
    if mean_err > 1e-5 * max(1.0, float(z.abs().max())):
        return f"MeanConserved: |mean(proj) - mean(clamped target atoms)| = {mean_err:.3g}"
    terms = proj * logq.double()
    ce = -terms.sum(1)
    tol = 1e-6 + 4.0 * (N + 2) * EPS32 * terms.abs().sum(1)
    if ((ce - out.detach().double()).abs() > tol).any().item():
        return "CrossEntropy: returned loss is not -sum proj * log q(action taken)"
    return None
