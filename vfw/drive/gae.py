"""Driver for C17: real PPO.learn / IPPO.learn on identified rollouts, observed through the guarded
recorder hook (agilerl.utils.verif_hooks, AGILERL_VERIF=1).

A rollout is a dict  {T, E, G, gn, ln, rew[t][e][g], val[t][e][g], done[t][e][g], nv[e][g], nd[e][g]}
(0-based python lists; gamma = gn/2, lambda = ln/2; done[t] = "the previous step ended the episode" as the
training loops record it; nd = next_done; nv = value the critic returns for the final next observation).

Identified data: observation = [t, e, g, group] (Box) or the integer code of (t,e,g) (Discrete), the action
is the integer code of (t,e,g), the old log-prob is -(code+1).  The only stubbed *input* is the critic's
forward on the final next observation (it returns nv[e][g] of the observation it is given, so a permutation of
the next observations relative to the reward columns is visible); everything else is the real code.
"""
from __future__ import annotations

import os
import random
from fractions import Fraction

import numpy as np
import torch

torch.set_num_threads(1)

MAXT = 6
S = 2 * 4 ** (MAXT - 1)
INEXACT = -(2 ** 30)
NCODE = 256
NET = {"encoder_config": {"hidden_size": [8]}}


def scaled(x) -> int:
    x = float(x)
    if x != x or x in (float("inf"), float("-inf")):
        return INEXACT
    f = Fraction(x) * S
    if f.denominator != 1 or abs(f.numerator) > 10 ** 9:
        return INEXACT
    return int(f.numerator)


def code(t, e, g, E, G):
    return (t * E + e) * G + g


def decode(c, E, G):
    """integer code -> 1-based (t, e, g); [0,0,0] if not a code"""
    c = float(c)
    if c != int(c) or c < 0:
        return [0, 0, 0]
    c = int(c)
    return [c // (E * G) + 1, (c // G) % E + 1, c % G + 1]


def decode_box(row, grp):
    r = [float(x) for x in row]
    if any(x != int(x) for x in r) or int(r[3]) != grp:
        return [0, 0, 0]
    return [int(r[0]), int(r[1]), int(r[2])]


def decode_logp(x, E, G):
    return decode(-float(x) - 1.0, E, G)


# ------------------------------------------------------------------------------------------ agents
_AGENTS = {}


def _hooks():
    from agilerl.utils import verif_hooks
    assert verif_hooks.enabled(), "AGILERL_VERIF=1 is required (set by ./check)"
    return verif_hooks


def ppo_agent(obs_kind, gn, ln, fresh=False):
    from gymnasium import spaces
    from agilerl.algorithms.ppo import PPO

    key = ("ppo", obs_kind, gn, ln)
    if fresh or key not in _AGENTS:
        obs = spaces.Box(-1000.0, 1000.0, (4,), np.float32) if obs_kind == "box" else spaces.Discrete(NCODE)
        info = {}
        try:
            a = PPO(obs, spaces.Discrete(NCODE), net_config=NET, batch_size=4, update_epochs=1)
            info["share_encoders"] = True
        except Exception:
            a = PPO(obs, spaces.Discrete(NCODE), net_config=NET, batch_size=4, update_epochs=1, share_encoders=False)
            info["share_encoders"] = False
        # the discount factors are set on the constructed agent (as a hyperparameter mutation does): the
        # estimates must follow the agent's CURRENT gamma / lambda
        a.gamma, a.gae_lambda = gn / 2, ln / 2
        a._verif_info = info
        if fresh:
            return a
        _AGENTS[key] = a
    return _AGENTS[key]


def ippo_agent(ids, gn, ln, fresh=False):
    from gymnasium import spaces
    from agilerl.algorithms.ippo import IPPO

    key = ("ippo", tuple(ids), gn, ln)
    if fresh or key not in _AGENTS:
        a = IPPO([spaces.Box(-1000.0, 1000.0, (4,), np.float32) for _ in ids], [spaces.Discrete(NCODE) for _ in ids],
                 agent_ids=list(ids), net_config=NET, batch_size=4, update_epochs=1)
        a.gamma, a.gae_lambda = gn / 2, ln / 2
        if fresh:
            return a
        _AGENTS[key] = a
    return _AGENTS[key]


class CriticStub:
    """Replaces critic.forward: for a batch that consists of final next observations (t = T+1) it returns the
    scripted value of each observation; any other batch goes to the real forward."""

    def __init__(self, critic, T, E, G, grp, nv, obs_kind):
        self.critic, self.T, self.E, self.G, self.grp, self.nv, self.kind = critic, T, E, G, grp, nv, obs_kind
        self.orig = critic.forward
        self.hits = 0

    def ids(self, x):
        x = x.detach().cpu()
        if self.kind == "box":
            if x.ndim != 2 or x.shape[1] != 4:
                return None
            return [decode_box(r, self.grp) for r in x.tolist()]
        if x.ndim != 2 or x.shape[1] != NCODE:
            return None
        return [decode(int(r.argmax()), self.E, self.G) if float(r.sum()) == 1.0 else [0, 0, 0] for r in x]

    def __call__(self, x, *a, **k):
        ids = self.ids(x) if isinstance(x, torch.Tensor) else None
        if ids and all(i[0] == self.T + 1 and 1 <= i[1] <= self.E and 1 <= i[2] <= self.G for i in ids):
            self.hits += 1
            return torch.tensor([[float(self.nv[i[1] - 1][i[2] - 1])] for i in ids], dtype=torch.float32)
        return self.orig(x, *a, **k)

    def __enter__(self):
        self.critic.forward = self
        return self

    def __exit__(self, *exc):
        try:
            del self.critic.forward
        except AttributeError:
            self.critic.__dict__.pop("forward", None)
        return False


# ------------------------------------------------------------------------------------------ experiences
def _obs(kind, t, e, g, E, G, grp):
    if kind == "box":
        return np.array([t + 1, e + 1, g + 1, grp], dtype=np.float32)
    return np.int64(code(t, e, g, E, G))


def ppo_experiences(roll, obs_kind, form):
    """form 'vector': per step arrays with a leading num_envs dimension (train_on_policy with a vector env);
    form 'scalar': one un-vectorised environment (per step scalars / a single observation)."""
    T, E = roll["T"], roll["E"]
    f32 = np.float32
    if form == "scalar":
        assert E == 1
        states = [_obs(obs_kind, t, 0, 0, 1, 1, 0) for t in range(T)]
        actions = [np.int64(code(t, 0, 0, 1, 1)) for t in range(T)]
        logp = [f32(-(code(t, 0, 0, 1, 1) + 1)) for t in range(T)]
        rew = [float(roll["rew"][t][0][0]) for t in range(T)]
        dones = [np.float64(roll["done"][t][0][0]) for t in range(T)]
        vals = [f32(roll["val"][t][0][0]) for t in range(T)]
        nxt = _obs(obs_kind, T, 0, 0, 1, 1, 0)
        nd = np.int8(roll["nd"][0][0])
        return (states, actions, logp, rew, dones, vals, nxt, nd)
    states = [np.stack([_obs(obs_kind, t, e, 0, E, 1, 0) for e in range(E)]) for t in range(T)]
    actions = [np.array([code(t, e, 0, E, 1) for e in range(E)], dtype=np.int64) for t in range(T)]
    logp = [np.array([-(code(t, e, 0, E, 1) + 1) for e in range(E)], dtype=f32) for t in range(T)]
    rew = [np.array([roll["rew"][t][e][0] for e in range(E)], dtype=np.float64) for t in range(T)]
    dones = [np.array([roll["done"][t][e][0] for e in range(E)], dtype=np.float64) for t in range(T)]
    vals = [np.array([roll["val"][t][e][0] for e in range(E)], dtype=f32) for t in range(T)]
    nxt = np.stack([_obs(obs_kind, T, e, 0, E, 1, 0) for e in range(E)])
    nd = np.array([roll["nd"][e][0] for e in range(E)], dtype=np.int8)
    return (states, actions, logp, rew, dones, vals, nxt, nd)


def member_label(g, G, order="id"):
    """number of the g-th member of a homogeneous group in its agent id: in list order, or reversed ("agent_1" listed before
    "agent_0": the order of agent_ids is the user's, it need not be the lexicographic one)"""
    return G - 1 - g if order == "rev" else g


def ippo_experiences(groups, nd_form, order="id"):
    """groups: list of (prefix, roll) with the same T, E; agent ids are f'{prefix}_{g}'.  Shapes as
    train_multi_agent_on_policy produces them for a vectorised environment: per step and agent obs (E,4),
    action (E,1), log-prob (E,1), value (E,1), reward (E,), done (E,); next_obs (E,4);
    next_done (E,) [nd_form 'loop', what the training loop passes] or (1,E) [nd_form 'row', what the
    repository's tests pass]."""
    f32 = np.float32
    exp = [dict() for _ in range(8)]
    for grp, (prefix, roll) in enumerate(groups):
        T, E, G = roll["T"], roll["E"], roll["G"]
        for g in range(G):
            aid = f"{prefix}_{member_label(g, G, order)}"
            exp[0][aid] = [np.stack([_obs("box", t, e, g, E, G, grp) for e in range(E)]) for t in range(T)]
            exp[1][aid] = [np.array([[code(t, e, g, E, G)] for e in range(E)], dtype=np.int64) for t in range(T)]
            exp[2][aid] = [np.array([[-(code(t, e, g, E, G) + 1)] for e in range(E)], dtype=f32) for t in range(T)]
            exp[3][aid] = [np.array([roll["rew"][t][e][g] for e in range(E)], dtype=np.float64) for t in range(T)]
            exp[4][aid] = [np.array([roll["done"][t][e][g] for e in range(E)], dtype=np.float64) for t in range(T)]
            exp[5][aid] = [np.array([[roll["val"][t][e][g]] for e in range(E)], dtype=f32) for t in range(T)]
            exp[6][aid] = np.stack([_obs("box", T, e, g, E, G, grp) for e in range(E)])
            nd = np.array([roll["nd"][e][g] for e in range(E)], dtype=np.int8)
            exp[7][aid] = nd if nd_form == "loop" else nd.reshape(1, E)
    if order == "mixed":
        # every component dictionary is keyed by agent id; its key order carries no meaning: rewards, values, next_obs and next_done
        # are handed over in other key orders than the observations
        for k, rot in ((3, 1), (5, 2), (6, -1), (7, 1)):
            keys = list(exp[k])
            keys = keys[::-1] if rot == -1 else keys[rot % len(keys):] + keys[:rot % len(keys)]
            exp[k] = {a: exp[k][a] for a in keys}
    return tuple(exp)


# ------------------------------------------------------------------------------------------ projection
def _np(x):
    return np.asarray(x.detach().cpu().numpy() if isinstance(x, torch.Tensor) else x, dtype=np.float64)


class Anomaly(Exception):
    pass


def _f32(x):
    return float(np.float32(x))


def _columns(roll, h_rew, h_val, h_done):
    """hook column j -> (e, g): the column of the fed rollout with the same rewards, values and done flags
    (done[0] is never read by GAE and not compared).  The driver only feeds rollouts with pairwise distinct
    columns, so the map is unique and does not presuppose the code's internal column order."""
    T, E, G = roll["T"], roll["E"], roll["G"]
    if h_rew.ndim == 1:
        h_rew, h_val, h_done = h_rew.reshape(-1, 1), h_val.reshape(-1, 1), h_done.reshape(-1, 1)
    if h_rew.shape != (T, E * G) or h_val.shape != (T, E * G) or h_done.shape != (T, E * G):
        raise Anomaly(f"gae-shape: GAE runs over T time steps x (env, agent) columns of the collected rollout "
                      f"[rewards seen by the loop have shape {tuple(h_rew.shape)}, expected {(T, E * G)}]")
    fed = {}
    for e in range(E):
        for g in range(G):
            k = (tuple(_f32(roll["rew"][t][e][g]) for t in range(T)), tuple(_f32(roll["val"][t][e][g]) for t in range(T)),
                 tuple(_f32(roll["done"][t][e][g]) for t in range(1, T)))
            if k in fed:
                raise ValueError("driver bug: rollout columns are not pairwise distinct")
            fed[k] = (e, g)
    cmap = []
    for j in range(E * G):
        k = (tuple(_f32(x) for x in h_rew[:, j]), tuple(_f32(x) for x in h_val[:, j]), tuple(_f32(x) for x in h_done[1:, j]))
        if k not in fed:
            raise Anomaly("gae-inputs: each column the loop runs over is the reward/value/done sequence of one (env, agent)")
        cmap.append(fed[k])
    if len(set(cmap)) != E * G:
        raise Anomaly("gae-inputs: each column the loop runs over is the reward/value/done sequence of one (env, agent)")
    return cmap


def _mat(roll, h, cmap, t):
    E, G = roll["E"], roll["G"]
    m = [[INEXACT] * G for _ in range(E)]
    for j, (e, g) in enumerate(cmap):
        m[e][g] = scaled(h[t, j])
    return m


def _rows(roll, exps, obs_kind, grp):
    E, G = roll["E"], roll["G"]
    st, ac, lp, adv, ret, val = exps
    st = _np(st)
    n = st.shape[0]
    st = st.reshape(n, -1)
    ac, lp, adv, ret, val = (_np(x).reshape(-1) for x in (ac, lp, adv, ret, val))
    if not (len(ac) == len(lp) == len(adv) == len(ret) == len(val) == n):
        raise Anomaly("rows-shape: all six fields of the flattened batch have one entry per row")
    rows = []
    for k in range(n):
        o = decode_box(st[k], grp) if obs_kind == "box" else decode(st[k][0], E, G)
        rows.append({"obs": o, "act": decode(ac[k], E, G), "logp": decode_logp(lp[k], E, G),
                     "adv": scaled(adv[k]), "ret": scaled(ret[k]), "val": scaled(val[k])})
    return rows


def _head(roll):
    T = roll["T"]
    ev = [{"op": "collect", "rew": roll["rew"][t], "val": roll["val"][t], "done": roll["done"][t]} for t in range(T)]
    ev.append({"op": "end", "nv": roll["nv"], "nd": roll["nd"]})
    return ev


def _project(roll, gae, rows, obs_kind, grp, alg):
    """events gaestep*, returns, flatten from one pair of hook records (may raise Anomaly)"""
    T = roll["T"]
    h_rew, h_val, h_done, h_adv = (_np(gae[k]) for k in ("rewards", "values", "dones", "advantages"))
    cmap = _columns(roll, h_rew, h_val, h_done)
    h_adv = h_adv.reshape(T, -1)
    ev = [{"op": "gaestep", "t": t + 1, "adv": _mat(roll, h_adv, cmap, t)} for t in reversed(range(T))]
    if "returns" in gae:
        h_ret = _np(gae["returns"]).reshape(T, -1)
        ev.append({"op": "returns", "observed": True, "ret": [_mat(roll, h_ret, cmap, t) for t in range(T)]})
    else:       # IPPO adds the values after flattening: its returns are only observable in the rows
        ev.append({"op": "returns", "observed": False, "ret": []})
    fl = {"op": "flatten", "rows": _rows(roll, rows["experiences"], obs_kind, grp)}
    return ev, fl, (h_adv, cmap)


def _perturbed(roll, rng):
    """copy of roll in which, per column, every reward and value (incl. the critic's value of the final next
    observation) after the first episode boundary is replaced by unrelated, non-dyadic numbers; the done flags
    stay, so the episode structure of both runs is the same"""
    T, E, G = roll["T"], roll["E"], roll["G"]
    import copy
    p = copy.deepcopy(roll)
    touched = False
    for e in range(E):
        for g in range(G):
            ended = [roll["done"][k + 1][e][g] if k + 1 < T else roll["nd"][e][g] for k in range(T)]
            if 1 not in ended:
                continue
            B = ended.index(1)          # 0-based last step of the first episode segment
            touched = True
            for k in range(B + 1, T):
                p["rew"][k][e][g] = round(1000.3 * (k + 2) + 7 * e + 13 * g + rng.random(), 3)
                p["val"][k][e][g] = round(-333.7 * (k + 1) + 3 * e + 5 * g + rng.random(), 3)
            p["nv"][e][g] = round(777.7 + e + 2 * g + rng.random(), 3)
    return p if touched else None


def _call(agent, exp, stubs):
    hooks = _hooks()
    hooks.drain()
    exc = ""
    for s in stubs:
        s.__enter__()
    try:
        agent.learn(exp)
    except Exception as ex:      # noqa: BLE001 - the verdict is left to the trace specification
        exc = f"{type(ex).__name__}: {ex}"[:300]
    finally:
        for s in stubs:
            s.__exit__()
    return hooks.drain(), exc


def _trace(alg, roll, variant, recs, exc, names, obs_kind, grp, second=None):
    cfg = {k: roll[k] for k in ("T", "E", "G", "gn", "ln")}
    cfg.update({"alg": alg, "MaxT": MAXT, "S": S})
    cfg.update(variant)
    ev = _head(roll)
    tr = {"cfg": cfg, "ev": ev}
    if exc:
        ev.append({"op": "anomaly", "clause": f"no-exception: learn() returns without raising [{exc.split(':')[0]}]", "detail": exc})
        return tr
    d = dict(recs)
    if names[0] not in d or names[1] not in d:
        ev.append({"op": "anomaly", "clause": "hook-missing: the guarded recorder exported the GAE tensors and the flattened rows"})
        return tr
    try:
        e2, fl, _ = _project(roll, d[names[0]], d[names[1]], obs_kind, grp, alg)
        ev.extend(e2)
        if second is not None:
            proll, precs, pexc = second
            if pexc:
                raise Anomaly(f"no-exception: learn() returns without raising [{pexc.split(':')[0]}]")
            pd = dict(precs)
            ph_adv = _np(pd[names[0]]["advantages"]).reshape(roll["T"], -1)
            pcmap = _columns(proll, _np(pd[names[0]]["rewards"]), _np(pd[names[0]]["values"]), _np(pd[names[0]]["dones"]))
            ev.append({"op": "perturbed", "adv": [_mat(roll, ph_adv, pcmap, t) for t in range(roll["T"])]})
        ev.append(fl)
    except Anomaly as a:
        ev.append({"op": "anomaly", "clause": str(a)})
    return tr


# ------------------------------------------------------------------------------------------ entry points
def run_ppo(roll, obs_kind="box", form="vector", perturb_seed=None):
    """one PPO.learn call (stubbed critic value for the final next observation) -> one trace"""
    assert roll["G"] == 1
    agent = ppo_agent(obs_kind, roll["gn"], roll["ln"])
    T, E = roll["T"], roll["E"]

    def go(r):
        stub = CriticStub(agent.critic, T, E, 1, 0, r["nv"], obs_kind)
        recs, exc = _call(agent, ppo_experiences(r, obs_kind, form), [stub])
        if not exc and stub.hits != 1:
            exc = f"HarnessError: critic evaluated on the final next observation {stub.hits} times"
        return recs, exc

    recs, exc = go(roll)
    second = None
    if perturb_seed is not None and not exc:
        p = _perturbed(roll, random.Random(perturb_seed))
        if p is not None:
            precs, pexc = go(p)
            second = (p, precs, pexc)
    variant = {"obs": obs_kind, "form": form, "share_encoders": agent._verif_info["share_encoders"]}
    return _trace("ppo", roll, variant, recs, exc, ("ppo.gae", "ppo.rows"), obs_kind, 0, second)


def run_ippo(groups, nd_form="loop", perturb_seed=None, order="id"):
    """one IPPO.learn call; groups = [(prefix, roll), ...]; returns one trace per group"""
    ids = [f"{p}_{member_label(g, r['G'], order)}" for p, r in groups for g in range(r["G"])]
    r0 = groups[0][1]
    agent = ippo_agent(ids, r0["gn"], r0["ln"])
    assert list(agent.shared_agent_ids) == [p for p, _ in groups], agent.shared_agent_ids

    def go(gs):
        stubs = [CriticStub(agent.critics[i], r["T"], r["E"], r["G"], i, r["nv"], "box") for i, (_, r) in enumerate(gs)]
        recs, exc = _call(agent, ippo_experiences(gs, nd_form, order), stubs)
        if not exc and any(s.hits != 1 for s in stubs):
            exc = f"HarnessError: critic evaluated on the final next observation {[s.hits for s in stubs]} times"
        return recs, exc

    recs, exc = go(groups)
    precs = pexc = None
    pgs = None
    if perturb_seed is not None and not exc:
        rng = random.Random(perturb_seed)
        pgs = [(p, _perturbed(r, rng)) for p, r in groups]
        if all(x[1] is None for x in pgs):
            pgs = None
        else:
            pgs = [(p, pr if pr is not None else r) for (p, pr), (_, r) in zip(pgs, groups)]
            precs, pexc = go(pgs)
    out = []
    for i, (prefix, roll) in enumerate(groups):
        mine = [(n, f) for n, f in recs if n in ("ippo.gae", "ippo.rows")][2 * i:2 * i + 2]
        second = None
        if pgs is not None:
            pm = [(n, f) for n, f in precs if n in ("ippo.gae", "ippo.rows")][2 * i:2 * i + 2]
            second = (pgs[i][1], pm, pexc)
        variant = {"obs": "box", "nd_form": nd_form, "groups": len(groups), "group": i, "order": order}
        out.append(_trace("ippo", roll, variant, mine, exc, ("ippo.gae", "ippo.rows"), "box", i, second))
    return out


# ------------------------------------------------------------------------------------------ un-stubbed critic
def adv_def_float(roll, nvf):
    """the property's definition per episode segment, in float64, with the observed next values"""
    T, E, G = roll["T"], roll["E"], roll["G"]
    gam, lam = roll["gn"] / 2, roll["ln"] / 2
    out = np.zeros((T, E, G))
    for e in range(E):
        for g in range(G):
            ended = [roll["done"][k + 1][e][g] if k + 1 < T else roll["nd"][e][g] for k in range(T)]
            for t in range(T):
                K = next((k for k in range(t, T) if ended[k]), T - 1)
                a = 0.0
                for k in range(t, K + 1):
                    boot = gam * roll["val"][k + 1][e][g] if k < K else (0.0 if ended[K] else gam * nvf[e][g])
                    a += (gam * lam) ** (k - t) * (roll["rew"][k][e][g] + boot - roll["val"][k][e][g])
                out[t, e, g] = a
    return out


def run_unstubbed(alg, roll, obs_kind="box", nd_form="row"):
    """Real critic (fresh agent): the bootstrap value must be the critic's value of the final next observation
    of the same (env, agent), and the advantages must follow the definition with that value (tolerance 1e-5).
    Returns {clause: bool}, detail."""
    T, E, G = roll["T"], roll["E"], roll["G"]
    if alg == "ppo":
        agent = ppo_agent(obs_kind, roll["gn"], roll["ln"], fresh=True)
        exp = ppo_experiences(roll, obs_kind, "vector")
        with torch.no_grad():
            v = agent.critic(agent.preprocess_observation(exp[6])).reshape(-1).tolist()
        nvf = [[v[e]] for e in range(E)]
        names = ("ppo.gae", "ppo.rows")
    else:
        from agilerl.utils.algo_utils import preprocess_observation
        ids = [f"agent_{g}" for g in range(G)]
        agent = ippo_agent(ids, roll["gn"], roll["ln"], fresh=True)
        exp = ippo_experiences([("agent", roll)], nd_form)
        nvf = [[0.0] * G for _ in range(E)]
        space = agent.unique_observation_spaces["agent"]
        with torch.no_grad():
            for g in range(G):
                o = preprocess_observation(exp[6][f"agent_{g}"], space, agent.device, agent.normalize_images)
                v = agent.critics[0](o).reshape(-1).tolist()
                for e in range(E):
                    nvf[e][g] = v[e]
        names = ("ippo.gae", "ippo.rows")
    recs, exc = _call(agent, exp, [])
    res = {"no-exception": not exc}
    detail = {"exc": exc, "nvf": nvf}
    if exc:
        return res, detail
    d = dict(recs)
    try:
        cmap = _columns(roll, _np(d[names[0]]["rewards"]), _np(d[names[0]]["values"]), _np(d[names[0]]["dones"]))
    except Anomaly as a:
        res[str(a).split(":")[0]] = False
        return res, detail
    h_nv = _np(d[names[0]]["next_value"]).reshape(-1)
    h_adv = _np(d[names[0]]["advantages"]).reshape(T, -1)
    ref = adv_def_float(roll, nvf)

    def close(a, b):
        return abs(a - b) <= 1e-5 * max(1.0, abs(a), abs(b))

    res["bootstrap-value"] = len(h_nv) == E * G and all(close(h_nv[j], nvf[e][g]) for j, (e, g) in enumerate(cmap))
    res["gae-float"] = all(close(h_adv[t, j], ref[t, e, g]) for t in range(T) for j, (e, g) in enumerate(cmap))
    detail.update({"hook_next_value": h_nv.tolist(), "hook_adv": h_adv.tolist(), "ref_adv": ref.tolist(), "cmap": cmap})
    return res, detail
