"""Driver for C08 (specs/Bellman.tla, specs/Track.tla): the REAL learn() of the value-based learners.

Part 1 -- Bellman target with *tabular custom networks*.  The algorithms accept custom EvolvableModule
networks; TabQ / TabActor / TabCritic below are EvolvableModules whose forward is a table lookup on one-hot
observations (the table is a real nn.Parameter, so the real backward pass, optimiser step and soft update run).
What is real: agent construction, learn(), preprocess_observation, stack_critic_observations, the criterion,
the optimiser step, the soft update.  What the driver supplies (inputs only): the tables and the batch.
Y and Q(s,a) are read through a forward hook on the agent's own criterion object (observation only), the
loss is the value learn() returns.

Part 2 -- DoneMasks in differential form on the real default networks (all learners; the only form for
RainbowDQN and for the value of the CQN loss): two identically seeded agents, two batches that differ only in
next_obs of rows marked done -> loss and every post-learn weight must be bit-equal.

Part 3 -- target tracking: life-cycle scripts (create / learn / clone / mutate / save / load) on real agents;
after every learn the relation of every target tensor to tau*online_after + (1-tau)*target_before is
classified (lerp / noop / copy / other / same) and the trace is validated against Track_Trace.tla.

Encodings shared with the specification: states / actions are 1-based; continuous actions of the
actor-critic learners take the levels -1 + 2(i-1)/(n-1), i = 1..n; joint state / action of the multi-agent
learners are row-major over the agents (Bellman!JIdx).
"""
from __future__ import annotations

import os
import random
import shutil
import tempfile
from typing import Dict, List, Optional

import numpy as np
import torch
from torch import nn

from agilerl.modules.base import EvolvableModule

torch.set_num_threads(1)

OFFGRID = 999999
ALGOS_TAB = ["DQN", "DQN-double", "CQN", "CQN-double", "DDPG", "TD3", "MADDPG", "MATD3"]
MODE = {"DQN": "max", "DQN-double": "double", "CQN": "max", "CQN-double": "double", "DDPG": "actor", "TD3": "actormin",
        "MADDPG": "actor", "MATD3": "actormin"}


# ============================================================================ tabular networks
class TabQ(EvolvableModule):
    """Q(s, .) = table[s] for one-hot s."""

    def __init__(self, n_s: int, n_a: int, device: str = "cpu"):
        super().__init__(device)
        self.n_s, self.n_a = n_s, n_a
        self.table = nn.Parameter(torch.zeros(n_s, n_a))

    def forward(self, obs):
        return obs @ self.table


class TabActor(EvolvableModule):
    """mu(s) = table[s] (one action dimension) for one-hot s."""

    def __init__(self, n_s: int, device: str = "cpu"):
        super().__init__(device)
        self.n_s = n_s
        self.table = nn.Parameter(torch.zeros(n_s, 1))

    def forward(self, obs):
        return obs @ self.table


class TabCritic(EvolvableModule):
    """Q(s, a) = table[joint s][joint a]; obs = concatenated one-hot observations of n_agents agents,
    actions = one column per agent holding a level -1 + 2 i/(n_a - 1)."""

    def __init__(self, n_agents: int, n_s: int, n_a: int, device: str = "cpu"):
        super().__init__(device)
        self.n_agents, self.n_s, self.n_a = n_agents, n_s, n_a
        self.table = nn.Parameter(torch.zeros(n_s ** n_agents, n_a ** n_agents))

    def forward(self, obs, actions):
        B = obs.shape[0]
        js = torch.ones(B, 1)
        ja = torch.zeros(B, dtype=torch.long)
        for j in range(self.n_agents):
            oj = obs[:, j * self.n_s:(j + 1) * self.n_s]
            js = (js.unsqueeze(2) * oj.unsqueeze(1)).reshape(B, -1)
            lvl = torch.round((actions[:, j].detach() + 1.0) * (self.n_a - 1) / 2.0).long().clamp(0, self.n_a - 1)
            ja = ja * self.n_a + lvl
        return (js @ self.table).gather(1, ja.unsqueeze(1))


def level(i: int, n: int) -> float:
    """continuous action standing for action i (1-based) of n"""
    return -1.0 + 2.0 * (i - 1) / (n - 1)


def exact_int(x: float, den: float, approx: bool = False) -> int:
    """x * den as an integer if it is one (exactly; with approx=True up to the rounding of ONE float32 division by a batch size
    that is not a power of two: relative 1e-6, far below the distance 1 between two grid values), else OFFGRID"""
    v = float(x) * den
    iv = round(v)
    if approx and abs(v - iv) <= 1e-6 * abs(iv) + 1e-9 and abs(iv) < 10 ** 6:
        return int(iv)
    return int(iv) if iv == v and abs(iv) < 10 ** 8 else OFFGRID


def _pow2(n: int) -> bool:
    return n > 0 and n & (n - 1) == 0


def jidx(t: List[int], n: int) -> int:
    j = 0
    for x in t:
        j = j * n + (x - 1)
    return j + 1


def _set(mod, values):
    """overwrite the (only) table of a tabular network, wherever the algorithm keeps it (parameter or, for
    DQN's functional target, a plain tensor attribute)"""
    from ..project.agent import all_tensors
    t = all_tensors(mod)["table"]
    with torch.no_grad():
        t.copy_(torch.as_tensor(values, dtype=torch.float32).reshape(t.shape))


class TabKit:
    """One real agent of `algo` with tabular networks of a fixed shape, re-used for many cases."""

    def __init__(self, algo: str, nsl: int, nal: int, B: int, g2: int, n_agents: int = 1, seed: int = 0, vs: float = 1.0,
                 vary: bool = False, pf: int = 1):
        """vs: value scale (a power of two): every table entry and reward handed to the real code is the specification's value
        times vs (vs = 1/4: rewards in quarters, tables in eighths; vs = 4: magnitudes x 4); the Bellman target is linear in
        them, so observed values / vs (loss / vs^2) must equal the specification's.  vary: rotate the legitimate forms of the
        same batch (container type, action shape / dtype, done dtype) and of the learn arguments from call to call.
        pf: policy delay of DDPG / TD3 / MATD3 (the critic loss and its target are the same at policy steps and between them)."""
        from gymnasium import spaces
        self.algo, self.nsl, self.nal, self.B, self.g2, self.n = algo, nsl, nal, B, g2, n_agents
        self.vs, self.vary, self.form = float(vs), vary, ""
        self.mode = MODE[algo]
        self.multi = algo in ("MADDPG", "MATD3")
        if not self.multi:
            assert n_agents == 1
        torch.manual_seed(seed)
        np.random.seed(seed)
        gamma = g2 / 2.0
        osp = spaces.Box(0.0, 1.0, (nsl,), dtype=np.float32)
        if algo in ("DQN", "DQN-double"):
            from agilerl.algorithms.dqn import DQN
            self.agent = DQN(osp, spaces.Discrete(nal), actor_network=TabQ(nsl, nal), batch_size=B, lr=1e-3, gamma=gamma, tau=0.5,
                             double=algo.endswith("double"))
        elif algo in ("CQN", "CQN-double"):
            from agilerl.algorithms.cqn import CQN
            self.agent = CQN(osp, spaces.Discrete(nal), actor_network=TabQ(nsl, nal), batch_size=B, lr=1e-3, gamma=gamma, tau=0.5,
                             double=algo.endswith("double"))
        elif algo == "DDPG":
            from agilerl.algorithms.ddpg import DDPG
            self.agent = DDPG(osp, spaces.Box(-1.0, 1.0, (1,), dtype=np.float32), actor_network=TabActor(nsl),
                              critic_network=TabCritic(1, nsl, nal), batch_size=B, lr_actor=1e-3, lr_critic=1e-3, gamma=gamma, tau=0.5,
                              policy_freq=pf, share_encoders=False)
        elif algo == "TD3":
            from agilerl.algorithms.td3 import TD3
            self.agent = TD3(osp, spaces.Box(-1.0, 1.0, (1,), dtype=np.float32), actor_network=TabActor(nsl),
                             critic_networks=[TabCritic(1, nsl, nal), TabCritic(1, nsl, nal)], batch_size=B, lr_actor=1e-3,
                             lr_critic=1e-3, gamma=gamma, tau=0.5, policy_freq=pf, share_encoders=False)
        elif self.multi:
            ids = [f"agent_{i}" for i in range(n_agents)]
            osps = [osp for _ in ids]
            asps = [spaces.Box(-1.0, 1.0, (1,), dtype=np.float32) for _ in ids]
            actors = [TabActor(nsl) for _ in ids]
            mk = lambda: [TabCritic(n_agents, nsl, nal) for _ in ids]
            if algo == "MADDPG":
                from agilerl.algorithms.maddpg import MADDPG
                self.agent = MADDPG(osps, asps, agent_ids=ids, actor_networks=actors, critic_networks=mk(), batch_size=B,
                                    lr_actor=1e-3, lr_critic=1e-3, gamma=gamma, tau=0.5)
            else:
                from agilerl.algorithms.matd3 import MATD3
                self.agent = MATD3(osps, asps, agent_ids=ids, actor_networks=actors, critic_networks=[mk(), mk()], batch_size=B,
                                   lr_actor=1e-3, lr_critic=1e-3, gamma=gamma, tau=0.5, policy_freq=pf)
        else:
            raise ValueError(algo)
        self.ids = list(self.agent.agent_ids) if self.multi else [None]
        self.seen: List[tuple] = []
        self.hook = None
        self.watch()

    def watch(self):
        """observe (only) what enters and leaves the current agent's own criterion"""
        self.hook = self.agent.criterion.register_forward_hook(
            lambda m, inp, out: self.seen.append((inp[0].detach().clone(), inp[1].detach().clone(), out.detach().clone())))

    def lifecycle(self, op: str):
        """replace the learner by its clone / by what a checkpoint of it restores (the tabular networks are custom
        EvolvableModules: clone() and the checkpoint rebuild them from their init_dict)"""
        if op == "clone":
            self.agent = self.agent.clone()
        elif op.startswith("mutate:"):
            # the real Mutations object; on the tabular networks "arch" / "act" find nothing to mutate (the agent goes through the
            # no-change path of those mutations), "param" perturbs the tables (overwritten before the next learn), "none" is none
            from agilerl.hpo.mutation import Mutations
            kind = op.split(":")[1]
            import warnings
            with warnings.catch_warnings():
                warnings.simplefilter("ignore")
                m = Mutations(mutation_sd=0.1, mutate_elite=True, rand_seed=len(op) + self.nsl, **KIND_ARGS[kind])
                self.agent = m.mutation([self.agent])[0]
        elif op in ("loadnew", "loadinto"):
            self.hook.remove()                     # the observer is not part of the agent
            d = tempfile.mkdtemp(prefix="tabkit-")
            try:
                path = os.path.join(d, "a.pt")
                self.agent.save_checkpoint(path)
                if op == "loadnew":
                    self.agent = type(self.agent).load(path)
                else:
                    self.agent.load_checkpoint(path)
            finally:
                shutil.rmtree(d, ignore_errors=True)
        else:
            raise ValueError(op)
        self.agent.criterion._forward_hooks.clear()
        self.watch()

    # ------------------------------------------------------------------ tables
    def nets(self, l: int) -> Dict[str, object]:
        """the networks of learner l by the role they have in the specification"""
        ag = self.agent
        if self.algo in ("DQN", "DQN-double", "CQN", "CQN-double"):
            return {"q1": ag.actor, "t1": ag.actor_target}
        if self.algo == "DDPG":
            return {"q1": ag.critic, "t1": ag.critic_target, "mu": ag.actor_target, "pi": ag.actor}
        if self.algo == "TD3":
            return {"q1": ag.critic_1, "q2": ag.critic_2, "t1": ag.critic_target_1, "t2": ag.critic_target_2, "mu": ag.actor_target,
                    "pi": ag.actor}
        if self.algo == "MADDPG":
            return {"q1": ag.critics[l], "t1": ag.critic_targets[l], "mu": ag.actor_targets[l], "pi": ag.actors[l]}
        return {"q1": ag.critics_1[l], "q2": ag.critics_2[l], "t1": ag.critic_targets_1[l], "t2": ag.critic_targets_2[l],
                "mu": ag.actor_targets[l], "pi": ag.actors[l]}

    def set_tables(self, tabs: List[dict], mus: List[List[int]]):
        """tabs[l] = {q1, q2, t1, t2} (units 1/2, joint tables) of learner l; mus[j] = target actor of agent j (1-based
        actions).  The online actors get the *other* action everywhere (a bootstrap through the online actor is visible)."""
        for l, tb in enumerate(tabs):
            nets = self.nets(l)
            for role in ("q1", "q2", "t1", "t2"):
                if role in nets:
                    _set(nets[role], np.asarray(tb[role], dtype=np.float64) / 2.0 * self.vs)
            if "mu" in nets:
                _set(nets["mu"], [level(a, self.nal) for a in mus[l]])
                _set(nets["pi"], [level(a % self.nal + 1, self.nal) for a in mus[l]])
        self.check_readout(tabs, mus)

    def check_readout(self, tabs, mus):
        """harness self-check: the networks really compute the tables (one-hot probe of every state)"""
        eye = torch.eye(self.nsl)
        with torch.no_grad():
            for l, tb in enumerate(tabs):
                nets = self.nets(l)
                if "mu" in nets:
                    got = nets["mu"](eye).reshape(-1).tolist()
                    if got != [level(a, self.nal) for a in mus[l]]:
                        raise RuntimeError(f"tabular target actor of learner {l} does not read out its table: {got}")
                else:
                    for role in ("q1", "t1"):
                        if not torch.equal(nets[role](eye) * 2.0 / self.vs, torch.tensor(tb[role], dtype=torch.float32)):
                            raise RuntimeError(f"tabular network {role} does not read out its table")

    # ------------------------------------------------------------------ batch
    def one_hot(self, idx: List[int]) -> torch.Tensor:
        return torch.eye(self.nsl)[[i - 1 for i in idx]]

    def build_batch(self, rows: List[dict]):
        """rows[i] = {sl: [s per agent], al: [a per agent], r: [r per learner], s2l: [...], d: [d per learner]} (1-based).
        With self.vary the same batch is handed over in the forms learn() accepts, rotating from call to call: done flags as
        float32 (replay buffers) or int64; DQN / CQN actions as float or int64 columns, DQN also as an int64 vector (B,);
        CQN / TD3 experiences as tuple, list or TensorDict; DQN / DDPG as TensorDict or plain dict; the multi-agent
        dictionaries in different key orders (always)."""
        from tensordict import TensorDict
        B = len(rows)
        col = lambda xs: torch.tensor([[float(x)] for x in xs], dtype=torch.float32)
        self.nbatch = getattr(self, "nbatch", 0) + 1
        v = self.nbatch if self.vary else 0
        form = []

        def dcol(xs):
            if v % 3 == 2:
                if "done:int64" not in form:
                    form.append("done:int64")
                return torch.tensor([[int(x)] for x in xs], dtype=torch.int64)
            return col(xs)
        if not self.multi:
            obs, nobs = self.one_hot([r["sl"][0] for r in rows]), self.one_hot([r["s2l"][0] for r in rows])
            rew, done = col([r["r"][0] * self.vs for r in rows]), dcol([r["d"][0] for r in rows])
            if self.mode in ("max", "double"):
                act = col([r["al"][0] - 1 for r in rows])
                if v % 4 == 1:
                    act = act.long()
                    form.append("action:int64(B,1)")
                elif v % 4 == 3 and self.algo.startswith("DQN"):
                    act = act.long().reshape(-1)
                    form.append("action:int64(B,)")
            else:
                act = col([level(r["al"][0], self.nal) for r in rows])
            if self.algo in ("CQN", "CQN-double", "TD3"):
                tup = (obs, act, rew, nobs, done)
                if v % 3 == 1:
                    form.append("batch:TensorDict")
                    self.form = "+".join(form)
                    return TensorDict({"obs": obs, "action": act, "reward": rew, "next_obs": nobs, "done": done}, batch_size=[B])
                if v % 3 == 2:
                    form.append("batch:list")
                    tup = list(tup)
                self.form = "+".join(form)
                return tup
            d = {"obs": obs, "action": act, "reward": rew, "next_obs": nobs, "done": done}
            if v % 4 == 2:
                form.append("batch:dict")
                self.form = "+".join(form)
                return d
            self.form = "+".join(form)
            return TensorDict(d, batch_size=[B])
        st = {a: self.one_hot([r["sl"][j] for r in rows]) for j, a in enumerate(self.ids)}
        ns = {a: self.one_hot([r["s2l"][j] for r in rows]) for j, a in enumerate(self.ids)}
        ac = {a: col([level(r["al"][j], self.nal) for r in rows]) for j, a in enumerate(self.ids)}
        rw = {a: col([r["r"][j] * self.vs for r in rows]) for j, a in enumerate(self.ids)}
        dn = {a: dcol([r["d"][j] for r in rows]) for j, a in enumerate(self.ids)}
        # every component is keyed by agent id: handed over in different key orders (a batch is the same batch whatever the order)
        if self.nbatch % 2 == 0:
            form.append("keys:rotated")
            rot = lambda d, k: {a: d[a] for a in (list(d)[k % len(d):] + list(d)[:k % len(d)])}
            st, ac, rw, ns, dn = rot(st, 1), {a: ac[a] for a in reversed(list(ac))}, rot(rw, 2), {a: ns[a] for a in reversed(list(ns))}, rot(dn, 1)
        self.form = "+".join(form)
        return (st, ac, rw, ns, dn)

    # ------------------------------------------------------------------ one learn step, observed
    def learn(self, tabs, mus, rows) -> dict:
        """Set the tables, run the real learn() on the batch, return what was observed:
        per learner l: qe[c][i] (Q_c(s_i,a_i), units 1/4), y[c][i] (units 1/4), lossN (units 1/(16 B)), loss (float)."""
        self.set_tables(tabs, mus)
        batch = self.build_batch(rows)
        self.seen.clear()
        B = len(rows)
        out = {"exc": "", "learners": [], "form": self.form}
        try:
            if self.algo in ("DDPG", "TD3"):
                # target policy smoothing is an argument of learn(): switched off by a zero standard deviation or by a zero clip
                # (a large standard deviation: unclipped noise would move the target action to another level of the tables)
                if self.vary and self.nbatch % 2 == 1:
                    self.form = "+".join(x for x in (self.form, "noise_clip=0") if x)
                    ret = self.agent.learn(batch, noise_clip=0.0, policy_noise=4.0)
                else:
                    ret = self.agent.learn(batch, policy_noise=0.0)
            else:
                ret = self.agent.learn(batch)
        except Exception as e:                                       # recorded: the trace says learn must return
            out["exc"] = f"{type(e).__name__}: {e}"[:300]
            out["form"] = self.form
            return out
        out["form"] = self.form
        ncrit = 2 if self.mode == "actormin" else 1
        nl = len(tabs)
        if len(self.seen) != ncrit * nl:
            out["exc"] = f"criterion called {len(self.seen)} times, expected {ncrit * nl}"
            return out
        for l in range(nl):
            calls = self.seen[l * ncrit:(l + 1) * ncrit]
            if self.algo in ("DQN", "DQN-double", "CQN", "CQN-double"):
                loss = ret
            elif self.multi:
                loss = ret[self.ids[l]][1]
            else:
                loss = ret[1]
            vs, ap = self.vs, not _pow2(B)
            rec = {"qe": [[exact_int(v, 4 / vs) for v in c[0].reshape(-1).tolist()] for c in calls],
                   "y": [[exact_int(v, 4 / vs) for v in c[1].reshape(-1).tolist()] for c in calls],
                   "shape_ok": all(tuple(c[0].shape) == (B, 1) and tuple(c[1].shape) == (B, 1) for c in calls),
                   "mse": exact_int(sum(float(c[2]) for c in calls), 16 * B / (vs * vs), approx=ap),
                   "loss": float(loss), "lossN": exact_int(loss, 16 * B / (vs * vs), approx=ap)}
            out["learners"].append(rec)
        return out


# ---------------------------------------------------------------------------- M2: dumped cases -> real learn()
def case_rows(case: dict) -> List[dict]:
    return [{"sl": [r["s"]], "al": [r["a"]], "r": [r["r"]], "s2l": [r["s2"]], "d": [r["d"]]} for r in case["rows"]]


def kind_of(case_rows_: List[dict], l: int = 0) -> str:
    """kind of input for violation signatures"""
    ds = [r["d"][l] for r in case_rows_]
    return "all-done" if all(ds) else ("no-done" if not any(ds) else "some-done")


class Replayer:
    """Replays the cases TLC dumped (inputs + the Y / loss the specification demands) into the real learn()."""

    def __init__(self, tables: List[dict], seed: int = 0):
        self.tables = {t["id"]: t for t in tables}
        self.kits: Dict[tuple, TabKit] = {}
        self.seed = seed

    def kit(self, algo, g2, B) -> TabKit:
        key = (algo, g2, B)
        if key not in self.kits:
            self.kits[key] = TabKit(algo, 2, 2, B, g2, seed=self.seed + len(self.kits))
        return self.kits[key]

    def run(self, algo: str, case: dict) -> Optional[dict]:
        """None if the real learn() agrees with the specification on this case, else a mismatch description."""
        assert MODE[algo] == case["mode"]
        tb = self.tables[case["tid"]]
        kit = self.kit(algo, case["g2"], len(case["rows"]))
        rows = case_rows(case)
        obs = kit.learn([tb], [tb["mu"]], rows)
        info = {"algo": algo, "case": case, "observed": obs}
        if obs["exc"]:
            return dict(info, clause="Raises", detail=obs["exc"])
        o = obs["learners"][0]
        B = len(rows)
        for c in range(len(o["qe"])):
            want_q = [2 * (tb["q1"] if c == 0 else tb["q2"])[r["s"] - 1][r["a"] - 1] for r in case["rows"]]
            if not o["shape_ok"]:
                return dict(info, clause="Shape", detail="criterion arguments are not (B,1) columns")
            if o["qe"][c] != want_q:
                return dict(info, clause="QEval", detail=f"critic {c + 1}: Q(s,a) entering the loss = {o['qe'][c]}/4, stored (s,a) give {want_q}/4")
            if o["y"][c] != case["y"]:
                return dict(info, clause=classify_y(case, tb, o["y"][c]), detail=f"critic {c + 1}: y = {o['y'][c]}/4, specification {case['y']}/4")
        if algo.startswith("CQN"):
            # the CQN loss adds a logsumexp regulariser: only the Bellman part (criterion output) is exact
            if o["mse"] != case["acc"]:
                return dict(info, clause="Loss", detail=f"criterion value {o['mse']}/{16 * B}, specification {case['acc']}/{16 * B}")
            return None
        if o["lossN"] != case["acc"]:
            return dict(info, clause="Loss", detail=f"returned loss {o['loss']!r} = {o['lossN']}/{16 * B}, specification {case['acc']}/{16 * B}")
        return None


def classify_y(case, tb, got) -> str:
    """which clause of the specification the observed targets break (for the signature)"""
    for i, r in enumerate(case["rows"]):
        if r["d"] == 1 and got[i] != 4 * r["r"]:
            return "DoneMasks"
    return "Bootstraps"


# ---------------------------------------------------------------------------- M3: random larger cases -> trace
def _rand_table(rng: random.Random, ns: int, na: int, no_ties: bool) -> List[List[int]]:
    out = []
    for _ in range(ns):
        while True:
            row = [rng.randint(-8, 8) for _ in range(na)]
            if not no_ties or len(set(row)) == na:
                break
        out.append(row)
    return out


def run_tab_trace(algo: str, *, nsl: int, nal: int, n: int, B: int, g2: int, seed: int, learns: int = 3, vs: float = 1.0,
                  vary: bool = False, lifecycle: bool = False, Bs: Optional[List[int]] = None, vss: Optional[List[float]] = None,
                  pf: int = 1) -> dict:
    """`learns` real learn() calls of one tabular agent on random tables / batches; one "loss" event per learner
    and call, for Bellman_Trace.  B a power of two: the mean is exact; otherwise the returned loss is taken up to the rounding
    of the one division (exact_int approx).  vs: value scale (see TabKit); Bs / vss: batch size / value scale of the successive
    learn calls (rotating; default: B and vs throughout); vary: rotate batch forms / learn arguments;
    lifecycle: between the learn calls the learner is replaced by its clone / by its checkpoint loaded into a new or into the
    same agent / goes through a real Mutations round ("directly after clone, mutation and checkpoint load")."""
    rng = random.Random(seed)
    kit = TabKit(algo, nsl, nal, B, g2, n_agents=n, seed=seed, vs=vs, vary=vary, pf=pf)
    jns, jna = nsl ** n, nal ** n
    cfg = {"algo": algo, "mode": kit.mode, "g2": g2, "n": n, "nsl": nsl, "nal": nal, "B": B, "seed": seed, "learns": learns,
           "regularised": int(algo.startswith("CQN")), "vs": vs, "vary": bool(vary), "lifecycle": bool(lifecycle),
           "Bs": list(Bs or []), "vss": list(vss or []), "pf": pf}
    evs = []
    lrng = random.Random(seed + 77)
    for it in range(learns):
        Bi = Bs[it % len(Bs)] if Bs else B
        kit.vs = float(vss[it % len(vss)]) if vss else float(vs)
        tabs = [{"q1": _rand_table(rng, jns, jna, kit.mode == "double"), "q2": _rand_table(rng, jns, jna, False),
                 "t1": _rand_table(rng, jns, jna, False), "t2": _rand_table(rng, jns, jna, False)} for _ in range(n)]
        mus = [[rng.randint(1, nal) for _ in range(nsl)] for _ in range(n)]
        rows = [{"sl": [rng.randint(1, nsl) for _ in range(n)], "al": [rng.randint(1, nal) for _ in range(n)],
                 "r": [rng.randint(-2, 2) for _ in range(n)], "s2l": [rng.randint(1, nsl) for _ in range(n)],
                 "d": [int(rng.random() < 0.4) for _ in range(n)]} for _ in range(Bi)]
        after = "learn" if it else "create"
        lc_exc = ""
        if lifecycle and it:
            after = ("clone", "loadnew", "loadinto", "mutate:none", "mutate:param", "mutate:arch")[(lrng.randrange(6) + it) % 6]
            try:
                kit.lifecycle(after)
            except Exception as e:                                   # noqa: BLE001  (recorded: the trace says the operations return)
                lc_exc = f"{after}: {type(e).__name__}: {e}"[:300]
        obs = kit.learn(tabs, mus, rows) if not lc_exc else {"exc": lc_exc, "learners": [], "form": ""}
        for l in range(n):
            ev = {"op": "loss", "learner": l + 1, "exc": obs["exc"], "tab": tabs[l], "mus": mus,
                  "rows": [{"sl": r["sl"], "al": r["al"], "s2l": r["s2l"], "r": r["r"][l], "d": r["d"][l]} for r in rows],
                  "kind": kind_of(rows, l), "after": after, "form": obs.get("form", ""), "vs": kit.vs}
            if not obs["exc"]:
                o = obs["learners"][l]
                ev.update({"qe": o["qe"], "y": o["y"], "lossN": o["lossN"], "mse": o["mse"], "shape_ok": bool(o["shape_ok"]), "loss": o["loss"]})
            else:
                ev.update({"qe": [], "y": [], "lossN": OFFGRID, "mse": OFFGRID, "shape_ok": False, "loss": "none"})   # (no JSON null: TLC)
            evs.append(ev)
        if obs["exc"]:
            break
    return {"cfg": cfg, "ev": evs}


# ============================================================================ Part 2: differential DoneMasks
VARIANTS = {   # variant -> (zoo algo, constructor kwargs, learn style)
    "DQN": ("DQN", {}, "plain"), "DQN-double": ("DQN", {"double": True}, "plain"),
    "CQN": ("CQN", {}, "plain"), "CQN-double": ("CQN", {"double": True}, "plain"),
    "RainbowDQN": ("RainbowDQN", {}, "plain"), "RainbowDQN-per": ("RainbowDQN", {}, "per"),
    "RainbowDQN-nstep": ("RainbowDQN", {"n_step": 3}, "nstep"), "RainbowDQN-nstep-per": ("RainbowDQN", {"n_step": 3}, "nstep-per"),
    "RainbowDQN-nstep-combined": ("RainbowDQN", {"n_step": 3, "combined_reward": True}, "nstep"),
    "DDPG": ("DDPG", {}, "plain"), "TD3": ("TD3", {}, "plain"), "MADDPG": ("MADDPG", {}, "plain"), "MATD3": ("MATD3", {}, "plain"),
}
# heterogeneous teams (agents with observation and action spaces of different sizes); vector observations only
HETERO = {"MADDPG-hetero": ("MADDPG", {"hetero": True}, "plain"), "MATD3-hetero": ("MATD3", {"hetero": True}, "plain")}
VARIANTS_ALL = dict(VARIANTS, **HETERO)


def _make_hetero(algo: str, seed: int, index: int, policy_freq: int):
    """MADDPG / MATD3 like zoo.make_agent builds them, but pred_0: Box(4) observations, 2 action dimensions; prey_0: Box(3), 1"""
    from gymnasium import spaces
    from .. import zoo
    zoo.seed_all(seed)
    ids = ["pred_0", "prey_0"]                  # different groups (agents of one group must share their spaces)
    osps = [spaces.Box(-1.0, 1.0, (4,), dtype=np.float32), spaces.Box(-1.0, 1.0, (3,), dtype=np.float32)]
    asps = [spaces.Box(-1.0, 1.0, (2,), dtype=np.float32), spaces.Box(-1.0, 1.0, (1,), dtype=np.float32)]
    mod = __import__(f"agilerl.algorithms.{algo.lower()}", fromlist=[algo])
    extra = {"policy_freq": policy_freq} if algo == "MATD3" else {}
    return getattr(mod, algo)(osps, asps, agent_ids=ids, batch_size=8, lr_actor=1e-3, lr_critic=2e-3, tau=0.5, index=index,
                              hp_config=zoo.hp_config(algo), net_config=zoo.net_config("vector"), **extra)


def make_variant(variant: str, family: str, seed: int, index: int = 0, policy_freq: int = 1, tau: Optional[float] = None,
                 gamma: Optional[float] = None):
    from .. import zoo
    algo, kw, _ = VARIANTS_ALL[variant]
    if kw.get("hetero"):
        ag = _make_hetero(algo, seed, index, policy_freq)
    else:
        ag = zoo.make_agent(algo, family, seed=seed, index=index, policy_freq=policy_freq, **kw)
    if algo == "DDPG" and policy_freq != 1:
        ag.policy_freq = policy_freq            # the zoo builds DDPG with policy_freq=1; it is a plain attribute read by learn()
    if tau is not None:
        ag.tau = tau
    if gamma is not None:
        ag.gamma = gamma
    return ag


def _rows_mix(orig, alt, rows: List[int]):
    """orig with rows `rows` (0-based) replaced by alt's, for tensors / dicts / tuples / TensorDicts of batched tensors"""
    from tensordict import TensorDict
    if isinstance(orig, TensorDict):
        return TensorDict({k: _rows_mix(orig[k], alt[k], rows) for k in orig.keys()}, batch_size=orig.batch_size)
    if isinstance(orig, dict):
        return {k: _rows_mix(orig[k], alt[k], rows) for k in orig}
    if isinstance(orig, tuple):
        return tuple(_rows_mix(o, a, rows) for o, a in zip(orig, alt))
    out = torch.as_tensor(orig).clone()
    if rows:
        out[rows] = torch.as_tensor(alt)[rows].to(out.dtype)
    return out


def _row_differs(orig, alt, i: int) -> bool:
    from tensordict import TensorDict
    if isinstance(orig, (TensorDict, dict)):
        return any(_row_differs(orig[k], alt[k], i) for k in orig.keys())
    if isinstance(orig, tuple):
        return any(_row_differs(o, a, i) for o, a in zip(orig, alt))
    return not torch.equal(torch.as_tensor(orig)[i], torch.as_tensor(alt)[i])


def _clone_batch(b):
    from tensordict import TensorDict
    if isinstance(b, TensorDict):
        return b.clone()
    if isinstance(b, dict):
        return {k: _clone_batch(v) for k, v in b.items()}
    if isinstance(b, tuple):
        return tuple(_clone_batch(v) for v in b)
    return torch.as_tensor(b).clone()


class Proto:
    """access to next_obs / done of a learn batch in the protocol the learner takes (TensorDict or 5-tuple)"""

    def __init__(self, batch):
        self.tuple = isinstance(batch, tuple)

    def get(self, batch, what):
        return batch[{"next_obs": 3, "done": 4}[what]] if self.tuple else batch[what]

    def put(self, batch, what, value):
        if self.tuple:
            lst = list(batch)
            lst[{"next_obs": 3, "done": 4}[what]] = value
            return tuple(lst)
        batch = batch.clone()
        batch[what] = value
        return batch


def _nets_of(agent, learner: Optional[int]):
    """all registered networks (of one learner for the multi-agent algorithms)"""
    from ..project import agent as proj
    evals, shared = proj.net_names(agent)
    out = []
    for e in evals:
        for nm in [e] + shared[e]:
            ms = proj._mods(agent, nm)
            out += [(nm, ms[learner])] if (learner is not None and len(ms) > 1) else [(nm, m) for m in ms]
    return out


def _loss_of(ret, learner, agent):
    if isinstance(ret, dict):
        return tuple(None if x is None else float(x) for x in ret[agent.agent_ids[learner]])
    if isinstance(ret, tuple):
        return tuple(None if x is None else (float(x) if np.ndim(x) == 0 else tuple(np.asarray(x, dtype=np.float64).reshape(-1).tolist()))
                     for x in ret)
    return (float(ret),)


def _flat(mod) -> torch.Tensor:
    from ..project.agent import all_tensors
    ts = [t.detach().reshape(-1).double() for _, t in sorted(all_tensors(mod).items()) if t.dtype.is_floating_point]
    return torch.cat(ts) if ts else torch.zeros(0, dtype=torch.float64)


def _num(loss) -> List[float]:
    out = []
    for x in loss:
        if x is None:
            continue
        out += list(x) if isinstance(x, tuple) else [x]
    return out


def run_diff(variant: str, family: str, *, seed: int, gamma: Optional[float] = None, warm: int = 2, B: int = 8) -> dict:
    """Differential DoneMasks on the real default networks.  Per learner: (i) perturb next_obs of every row marked
    done (for that learner) -> loss and all weights of the learner equal; (ii) control: perturb next_obs of one row
    not marked done -> loss or weights change (gamma > 0).
    Equality is bit-equality, except for RainbowDQN: there the projected target of a done row is mass(p) * (split of
    r between two atoms), where p is the target network's distribution at next_obs; mass(p) is 1 only up to float32
    rounding (and the network's 1e-3 clamp), so equality is taken up to 1e-5 + the observed relative mass difference."""
    from .. import zoo
    from ..project import agent as proj
    algo, kw, style = VARIANTS_ALL[variant]
    multi = algo in zoo.MULTI
    rainbow = algo == "RainbowDQN"
    rng = random.Random(seed)
    probe = make_variant(variant, family, seed, gamma=gamma)
    nlearn = len(probe.agent_ids) if multi else 1
    g = float(probe.gamma)
    cfg = {"algo": variant, "family": family, "mode": "max", "g2": (0 if g == 0.0 else 2), "n": 1, "nsl": 1, "nal": 1, "seed": seed,
           "gamma": g, "regularised": 0, "B": B, "equality": "float-tolerance" if rainbow else "bitwise"}
    evs = []
    bids = [seed % 1000, seed % 1000 + 1] if style.startswith("nstep") else [seed % 1000]

    def batches(agent, done_pattern, pert_rows, learner):
        """(experiences, n_experiences) with the chosen done flags; next_obs of pert_rows replaced when pert_rows"""
        out = []
        for j, bid in enumerate(bids):
            b = zoo.make_batch(agent, algo, bid, B=B)
            pr = Proto(b)
            for k in range(20):                               # an alternative batch whose next_obs differs on every perturbed row
                alt = zoo.make_batch(agent, algo, bid + 500 + 37 * k, B=B)
                if all(_row_differs(pr.get(b, "next_obs"), pr.get(alt, "next_obs"), i) for i in pert_rows[j]):
                    break
            else:
                raise RuntimeError("no alternative next_obs found")
            dn = pr.get(b, "done")
            pat = torch.tensor([[float(x)] for x in done_pattern[j]])
            if multi:
                dn = {a: (pat.clone() if k == learner else v) for k, (a, v) in enumerate(dn.items())}
            else:
                dn = pat.clone()
            b = pr.put(b, "done", dn)
            if pert_rows[j]:
                b = pr.put(b, "next_obs", _rows_mix(pr.get(b, "next_obs"), pr.get(alt, "next_obs"), pert_rows[j]))
            if style.endswith("per") and j == 0:
                b["weights"] = torch.tensor([[0.5 + 0.25 * (i % 3)] for i in range(B)])
                b["idxs"] = torch.arange(B)
            elif style.startswith("nstep") and j == 0:
                b["idxs"] = torch.arange(B)
            out.append(b)
        return out

    def one_run(done_pattern, pert_rows, learner):
        ag = make_variant(variant, family, seed, gamma=gamma)
        ag.batch_size = B                                     # the learners are handed batches of their configured size
        for w in range(warm):                                 # targets and online networks differ, optimiser has state
            zoo.learn(ag, algo, 900 + w)
        bs = batches(ag, done_pattern, pert_rows, learner)
        mass = []
        if rainbow:
            with torch.no_grad():
                for b in bs:
                    nobs = ag.preprocess_observation(b["next_obs"])
                    greedy = ag.actor(nobs).argmax(1)
                    mass.append(ag.actor_target(nobs, q=False)[torch.arange(B), greedy].sum(1).double())
        zoo.seed_all(31337 + seed)
        if style == "plain":
            ret = ag.learn(bs[0])
        elif style == "per":
            ret = ag.learn(bs[0], per=True)
        elif style == "nstep":
            ret = ag.learn(bs[0], n_experiences=bs[1], per=False)
        else:
            ret = ag.learn(bs[0], n_experiences=bs[1], per=True)
        if rainbow:
            ret = (ret[0], ret[2])                            # loss, new priorities (idxs are handed back unchanged)
        loss = _loss_of(ret, learner, ag)
        ws = [(nm, _flat(m)) for nm, m in _nets_of(ag, learner if multi else None)]
        return loss, ws, mass, float(getattr(ag, "lr", 0.0))

    def compare(r0, r1, done_rows):
        (l0, w0, m0, lr), (l1, w1, m1, _) = r0, r1
        if not rainbow:
            wd = [a[0] for a, b in zip(w0, w1) if not torch.equal(a[1], b[1])]
            return l0 == l1, not wd, wd, 0.0
        dev = 0.0
        for j, rows in enumerate(done_rows):
            for i in rows:
                dev = max(dev, abs(float(m0[j][i]) - float(m1[j][i])) / float(m0[j][i]))
        a, b = np.array(_num(l0)), np.array(_num(l1))
        same_loss = a.shape == b.shape and bool(np.all(np.abs(a - b) <= (1e-5 + 2 * dev) * np.maximum(np.abs(a), 1e-6)))
        wd = [x[0] for x, z in zip(w0, w1) if x[1].shape != z[1].shape or float((x[1] - z[1]).abs().max()) > 1e-6 + 10 * lr * dev]
        return same_loss, not wd, wd, dev

    nb = len(bids)
    for learner in range(nlearn):
        pattern = []
        for j in range(nb):
            d = [int(rng.random() < 0.4) for _ in range(B)]
            i1 = rng.randrange(B)
            d[i1] = 1
            d[rng.choice([i for i in range(B) if i != i1])] = 0
            pattern.append(d)
        dflat = [x for d in pattern for x in d]
        done_rows = [[i for i in range(B) if d[i] == 1] for d in pattern]
        ctl = [[rng.choice([i for i in range(B) if d[i] == 0])] for d in pattern]
        base = None
        for name, pert in (("done-rows", done_rows), ("control", ctl)):
            ev = {"op": "diff", "learner": learner + 1, "what": name, "d": dflat,
                  "pert": [j * B + i + 1 for j in range(nb) for i in pert[j]], "exc": "", "same_loss": False, "same_w": False}
            try:
                if base is None:
                    base = one_run(pattern, [[] for _ in range(nb)], learner)
                r1 = one_run(pattern, pert, learner)
                sl, sw, wd, dev = compare(base, r1, done_rows if name == "done-rows" else [[] for _ in range(nb)])
                ev.update({"same_loss": bool(sl), "same_w": bool(sw), "loss": [repr(base[0])[:200], repr(r1[0])[:200]], "w_diff": wd,
                           "mass_dev": dev})
            except Exception as e:
                import traceback
                ev["exc"] = f"{type(e).__name__}: {e}"[:300]
                ev["tb"] = traceback.format_exc()[-800:]
            evs.append(ev)
    return {"cfg": cfg, "ev": evs}


def run_diff_rainbow_stub(*, N: int, vmin: int, B: int, n: int, nstep: bool, combined: bool, per: bool, seed: int) -> dict:
    """Exact differential DoneMasks for RainbowDQN.learn: the harness of C18 (vfw/drive/c51.py: real agent, network
    forwards answered from tables keyed by observation content) with target distributions of mass exactly 1 on a
    dyadic grid.  "Another next observation" on a done row = other table entries for that row's next_obs (another
    greedy action, other target distributions).  The projected target distributions (guarded hook rainbow.proj),
    the loss and the per-sample losses must be bit-equal; on a row not marked done they must change."""
    from . import c51
    Q, PDEN = 8, 16
    rng0 = random.Random(seed)
    names = ["one", "n"] if nstep else ["one"]
    batches = {}
    for nm in names:
        rows = []
        for i in range(B):
            w = [0] * N
            for _ in range(PDEN):
                w[rng0.randrange(N)] += 1
            rows.append((w, rng0.randint(Q * vmin, Q * (vmin + N - 1)), int(rng0.random() < 0.4)))
        batches[nm] = {"rows": rows, "greedy": [rng0.randrange(c51.A) for _ in range(B)], "taken": [rng0.randrange(c51.A) for _ in range(B)]}
    if nstep:
        batches["n"]["taken"] = list(batches["one"]["taken"])
    for nm in names:                                                  # at least one done and one live row per batch
        rows = batches[nm]["rows"]
        rows[0] = (rows[0][0], rows[0][1], 1)
        # the live control row: reward in the middle of the support, so that no target atom is clamped
        rows[1] = (rows[1][0], Q * (vmin + (N - 1) // 2), 0)
    dflat = [r[2] for nm in names for r in batches[nm]["rows"]]
    cfg = {"algo": "RainbowDQN-stub" + ("-nstep" if nstep else "") + ("-combined" if combined else "") + ("-per" if per else ""),
           "family": "stub", "mode": "max", "g2": 1, "n": 1, "nsl": 1, "nal": 1, "seed": seed, "gamma": 0.5, "regularised": 0, "B": B,
           "equality": "bitwise", "N": N, "vmin": vmin, "nstep_n": n}

    def one_run(pert: Dict[str, List[int]]):
        h = c51.Harness(N, vmin, B, gamma=0.5, n_step=n, combined=combined, seed=seed)
        h.set_tables(random.Random(seed + 1), batches, PDEN)
        prng = random.Random(seed + 2)
        for nm in names:
            kn = c51.KIND[nm][1]
            for i in pert.get(nm, []):                                 # what the networks answer for row i's next_obs
                g = (batches[nm]["greedy"][i] + 1) % c51.A
                h.qvals[kn][i] = torch.tensor([1.0 if a == g else -float(1 + abs(a - g)) for a in range(c51.A)])
                for a in range(c51.A):
                    w = [0] * N
                    for _ in range(PDEN):
                        w[prng.randrange(N)] += 1
                    if a == g:          # a distribution with another mean than the original one (all mass on an end atom)
                        p0 = list(batches[nm]["rows"][i][0])
                        w = [PDEN] + [0] * (N - 1) if p0[0] != PDEN else [0] * (N - 1) + [PDEN]
                    h.tpmf[kn][i, a] = torch.tensor(w, dtype=torch.float32) / PDEN
        idxs = torch.arange(B)
        wts = torch.tensor([[0.5 + 0.25 * (i % 3)] for i in range(B)])
        e1 = h.experiences("one", batches["one"], Q, per=per, idxs=(idxs if (per or nstep) else None), weights=wts)
        en = h.experiences("n", batches["n"], Q) if nstep else None
        h.reset_obs()
        torch.manual_seed(seed)
        loss, _, prio = h.agent.learn(e1, n_experiences=en, per=per)
        recs = [f["proj_dist"].detach().clone() for (nm_, f) in h.hooks.drain() if nm_ == "rainbow.proj"]
        per_sample = [x[1] for x in h.losses if x[0] == "ok"]
        return float(loss), (None if prio is None else np.asarray(prio).copy()), recs, per_sample

    evs = []
    base = None
    done_rows = {nm: [i for i, r in enumerate(batches[nm]["rows"]) if r[2] == 1] for nm in names}
    ctl = {nm: [1] for nm in names}
    for what, pert in (("done-rows", done_rows), ("control", ctl)):
        ev = {"op": "diff", "learner": 1, "what": what, "d": dflat, "exc": "", "same_loss": False, "same_w": False,
              "pert": [j * B + i + 1 for j, nm in enumerate(names) for i in pert[nm]]}
        try:
            if base is None:
                base = one_run({})
            r1 = one_run(pert)
            if not base[2] or len(base[2]) != len(r1[2]):
                raise RuntimeError("no rainbow.proj hook record (is AGILERL_VERIF=1 set?)")
            same_proj = all(torch.equal(a, b) for a, b in zip(base[2], r1[2]))
            same_ps = len(base[3]) == len(r1[3]) and all(torch.equal(a, b) for a, b in zip(base[3], r1[3]))
            same_pr = (base[1] is None and r1[1] is None) or (base[1] is not None and r1[1] is not None and np.array_equal(base[1], r1[1]))
            ev["same_loss"] = bool(base[0] == r1[0] and same_ps and same_pr)
            ev["same_w"] = bool(same_proj)                             # "weights" here: the projected target distributions
            ev["loss"] = [repr(base[0]), repr(r1[0])]
            ev["w_diff"] = [] if same_proj else ["proj_dist"]
        except Exception as e:
            import traceback
            ev["exc"] = f"{type(e).__name__}: {e}"[:300]
            ev["tb"] = traceback.format_exc()[-800:]
        evs.append(ev)
    return {"cfg": cfg, "ev": evs}


# ============================================================================ Part 3: target tracking
TOL = 1e-5


def target_pairs(agent):
    """[(online name, target name, index in list or None)] from the agent's registry (eval network -> shared networks)"""
    from ..project import agent as proj
    evals, shared = proj.net_names(agent)
    out = []
    for e in evals:
        n = len(proj._mods(agent, e))
        for s in shared[e]:
            for i in range(n):
                out.append((e, s, i if isinstance(getattr(agent, e), list) else None))
    return out


def _mod(agent, name, i):
    obj = getattr(agent, name)
    return obj[i] if i is not None else obj


def _target_tensors(agent, online_name, target_name, i):
    """name -> (online parameter, target tensor or None) for every parameter of the online network"""
    from ..project.agent import all_tensors
    on = dict(_mod(agent, online_name, i).named_parameters())
    tg = all_tensors(_mod(agent, target_name, i))
    return {k: (v, tg.get(k)) for k, v in on.items()}


def classify_tensor(t_after, o_after, t_before, tau: float) -> str:
    if t_after is None or t_before is None or t_after.shape != o_after.shape or t_before.shape != t_after.shape:
        return "other"
    ta, oa, tb = t_after.double(), o_after.double(), t_before.double()
    scale = max(float(ta.abs().max()), float(oa.abs().max()), float(tb.abs().max()), 1e-3) if ta.numel() else 1.0
    tol = TOL * scale
    if ta.numel() == 0 or float((oa - tb).abs().max()) <= 16 * tol:
        # online_after == target_before (within resolution): lerp, noop and copy coincide
        return "same" if (ta.numel() == 0 or float((ta - tb).abs().max()) <= 16 * tol) else "other"
    hits = []
    if float((ta - (tau * oa + (1.0 - tau) * tb)).abs().max()) <= tol:
        hits.append("lerp")
    if float((ta - tb).abs().max()) <= tol:
        hits.append("noop")
    if float((ta - oa).abs().max()) <= tol:
        hits.append("copy")
    if tau >= 1.0 and "lerp" in hits and "copy" in hits:
        hits.remove("copy")                      # at tau = 1 the update rule IS a copy
    return hits[0] if len(hits) == 1 else "other"


KIND_ARGS = {"none": dict(no_mutation=1, architecture=0, new_layer_prob=0.5, parameters=0, activation=0, rl_hp=0),
             "arch": dict(no_mutation=0, architecture=1, new_layer_prob=0.5, parameters=0, activation=0, rl_hp=0),
             "param": dict(no_mutation=0, architecture=0, new_layer_prob=0.5, parameters=1, activation=0, rl_hp=0),
             "act": dict(no_mutation=0, architecture=0, new_layer_prob=0.5, parameters=0, activation=1, rl_hp=0),
             "hp": dict(no_mutation=0, architecture=0, new_layer_prob=0.5, parameters=0, activation=0, rl_hp=1)}


class TrackRunner:
    """Executes a life-cycle script on real agents of one learner variant and records the Track_Trace events."""

    def __init__(self, variant: str, family: str, *, pf: int, tau: float, seed: int, nslots: int = 3):
        self.variant, self.family, self.pf, self.tau, self.seed, self.nslots = variant, family, pf, tau, seed, nslots
        self.algo, self.kw, self.style = VARIANTS_ALL[variant]
        self.slots = [None] * (nslots + 1)
        self.ev: List[dict] = []
        self.dir = tempfile.mkdtemp(prefix="track-")
        self.muts: Dict[str, object] = {}
        self.targets: Optional[List[str]] = None

    def close(self):
        shutil.rmtree(self.dir, ignore_errors=True)

    def counter(self, ag) -> int:
        c = getattr(ag, "learn_counter", None)
        if c is None:
            return -1
        if isinstance(c, dict):
            return int(list(c.values())[-1])
        return int(c)

    def learn(self, ag, bid: int):
        from .. import zoo
        zoo.seed_all(7000 + bid)
        B = int(ag.batch_size)
        b = zoo.make_batch(ag, self.algo, bid, B=B)
        if self.style == "plain":
            return ag.learn(b)
        if self.style.endswith("per"):
            b["weights"] = torch.ones(B, 1)
        b["idxs"] = torch.arange(B)
        if self.style.startswith("nstep"):
            return ag.learn(b, n_experiences=zoo.make_batch(ag, self.algo, bid + 300, B=B), per=self.style.endswith("per"))
        return ag.learn(b, per=True)

    def snapshot_targets(self, ag):
        return [{k: (None if t is None else t.detach().clone()) for k, (o, t) in _target_tensors(ag, e, s, i).items()}
                for (e, s, i) in target_pairs(ag)]

    def classify(self, ag, before) -> List[dict]:
        out = []
        tau = float(ag.tau)
        for (e, s, i), tb in zip(target_pairs(ag), before):
            cur = _target_tensors(ag, e, s, i)
            per = {k: classify_tensor(t, o.detach(), tb.get(k), tau) for k, (o, t) in cur.items()}
            decided = sorted({c for c in per.values() if c != "same"})
            cls = "other" if not per else ("same" if not decided else (decided[0] if len(decided) == 1 else "other"))
            out.append({"pair": f"{e}->{s}" + ("" if i is None else f"[{i}]"), "cls": cls,
                        "tensors": {k: c for k, c in per.items()} if cls == "other" else {}})
        return out

    def apply(self, op, e):
        from .. import zoo
        if op[0] == "create":
            _, a = op
            e["a"] = a
            ag = make_variant(self.variant, self.family, self.seed + a, index=a - 1, policy_freq=self.pf, tau=self.tau)
            self.slots[a] = ag
            if self.targets is None:
                self.targets = [f"{x}->{y}" + ("" if i is None else f"[{i}]") for (x, y, i) in target_pairs(ag)]
            e["lc"] = self.counter(ag)
        elif op[0] == "learn":
            _, a, bid = op
            e.update({"a": a, "b": bid})
            ag = self.slots[a]
            before = self.snapshot_targets(ag)
            # "the quantity minimised by a learn step is the loss": the step must be the one an exact copy of the learner with
            # cleared gradient buffers takes on the same batch (nothing left over from earlier steps enters the update)
            twin = None
            try:
                import copy as _copy
                # (DQN / Rainbow keep their target as tensors tied to the module objects; a deep copy of those agents is not a
                # working learner, their steps are compared with clones in C01 instead)
                if not type(ag).__name__ in ("DDPG", "TD3", "MADDPG", "MATD3", "CQN"):
                    raise TypeError("not judged")
                twin = _copy.deepcopy(ag)
                for nm, mods in _all_modules(twin):
                    for m in mods:
                        for p_ in m.parameters():
                            p_.grad = None
            except Exception:                                      # noqa: BLE001  (an agent that cannot be deep-copied: not judged)
                twin = None
            self.learn(ag, bid)
            if twin is not None:
                self.learn(twin, bid)
                from ..project import agent as proj
                same = []
                for (nm, mods), (_, tmods) in zip(_all_modules(ag), _all_modules(twin)):
                    same.append(all(proj.w_hash(x) == proj.w_hash(y) for x, y in zip(mods, tmods)))
                e["fresh_same"] = bool(all(same))
            else:
                e["fresh_same"] = True
            cl = self.classify(ag, before)
            e["cls"] = [c["cls"] for c in cl]
            e["detail"] = [c for c in cl if c["cls"] == "other"]
            e["lc"] = self.counter(ag)
        elif op[0] == "clone":
            _, a, c = op
            e.update({"a": a, "c": c})
            self.slots[c] = self.slots[a].clone(index=c - 1)
            e["lc"] = self.counter(self.slots[c])
        elif op[0] == "mutate":
            _, a, kind = op
            e.update({"a": a, "k": kind})
            from agilerl.hpo.mutation import Mutations
            if kind not in self.muts:
                self.muts[kind] = Mutations(mutation_sd=0.1, mutate_elite=True, rand_seed=self.seed + 11, **KIND_ARGS[kind])
            zoo.seed_all(self.seed * 31 + len(self.ev))
            out = self.muts[kind].mutation([self.slots[a]])
            self.slots[a] = out[0]
            e["mut"] = str(out[0].mut)
            e["lc"] = self.counter(out[0])
        elif op[0] == "save":
            _, a, f = op
            e.update({"a": a, "f": f})
            self.slots[a].save_checkpoint(os.path.join(self.dir, f"f{f}.pt"))
            e["lc"] = self.counter(self.slots[a])
        elif op[0] == "loadnew":
            _, f, c = op
            e.update({"f": f, "c": c})
            cls = type([s for s in self.slots if s is not None][0])
            self.slots[c] = cls.load(os.path.join(self.dir, f"f{f}.pt"))
            e["lc"] = self.counter(self.slots[c])
        elif op[0] == "loadinto":
            _, f, a = op
            e.update({"f": f, "a": a})
            self.slots[a].load_checkpoint(os.path.join(self.dir, f"f{f}.pt"))
            e["lc"] = self.counter(self.slots[a])
        else:
            raise ValueError(op)

    def run(self, ops) -> dict:
        prev = "start"
        for op in ops:
            e = {"op": op[0], "a": 0, "c": 0, "f": 0, "k": "", "lc": -1, "cls": [], "exc": "", "after": prev}
            try:
                self.apply(op, e)
            except Exception as ex:
                import traceback
                e["exc"] = f"{type(ex).__name__}: {ex}"[:300]
                e["tb"] = traceback.format_exc()[-800:]
                self.ev.append(e)
                break
            self.ev.append(e)
            prev = op[0] + (":" + op[2] if op[0] == "mutate" else "")
        return {"cfg": {"algo": self.variant, "family": self.family, "pf": self.pf, "tau": self.tau, "seed": self.seed,
                        "NSlots": self.nslots, "targets": self.targets or [], "ops": [list(o) for o in ops]}, "ev": self.ev}


def run_track(variant: str, family: str, ops, *, pf: int = 1, tau: float = 0.5, seed: int = 0, nslots: int = 3) -> dict:
    r = TrackRunner(variant, family, pf=pf, tau=tau, seed=seed, nslots=nslots)
    try:
        return r.run(ops)
    finally:
        r.close()


def _all_modules(ag):
    """(name, [modules]) of every evaluation / target network of the agent, in registry order"""
    from ..project import agent as proj
    evals, shared = proj.net_names(ag)
    out = []
    for e_ in evals:
        for nm in [e_] + shared[e_]:
            out.append((nm, proj._mods(ag, nm)))
    return out


def script(rng: random.Random, pf: int, length: int = 14, dense: float = 0.0) -> List[tuple]:
    """A life-cycle script over 3 slots and 2 files: learn steps interleaved with clone / mutate / save / load, so that
    every life-cycle operation is directly followed by learn steps of the agent it produced.  `length` bounds the
    number of operations (approximately).  dense > 0: with that probability a life-cycle operation is NOT followed by learn
    steps but directly by the next life-cycle operation on the agent it produced (clone right after a mutation, mutation of a
    freshly loaded agent, two mutations in a row, ...), the learn steps come after the chain."""
    ops: List[tuple] = [("create", 1)]
    alive = {1}
    saved = set()
    bid = rng.randrange(50)

    def learns(a, k):
        nonlocal bid
        for _ in range(k):
            bid += 1
            ops.append(("learn", a, bid))

    learns(1, pf + 1)
    chained = None
    segs = ["clone", "mutate", "mutate", "loadnew", "loadinto"]
    rng.shuffle(segs)
    while len(ops) < length:
        if not segs:
            segs = ["clone", "mutate", "loadnew", "loadinto", "mutate"]
            rng.shuffle(segs)
        seg = segs.pop()
        a = rng.choice(sorted(alive))
        if chained is not None:
            a = chained
        tgt = a
        if seg in ("clone", "loadnew") and len(alive) == 3:
            seg = "mutate" if seg == "clone" else "loadinto"
        if seg == "clone":
            c = min(s for s in (1, 2, 3) if s not in alive)
            ops.append(("clone", a, c))
            alive.add(c)
            tgt = c
        elif seg == "mutate":
            ops.append(("mutate", a, rng.choice(["arch", "arch", "param", "act", "hp", "none", "none"])))
        else:
            if not saved or rng.random() < 0.5:
                f = rng.choice([1, 2])
                ops.append(("save", a, f))
                saved.add(f)
                learns(a, rng.randint(0, pf))
            f = rng.choice(sorted(saved))
            if seg == "loadnew":
                c = min(s for s in (1, 2, 3) if s not in alive)
                ops.append(("loadnew", f, c))
                alive.add(c)
                tgt = c
            else:
                ops.append(("loadinto", f, a))
        if dense > 0 and rng.random() < dense and len(ops) < length:
            chained = tgt
            continue
        chained = None
        learns(tgt, rng.randint(1, pf + 1))
        if rng.random() < 0.3:
            learns(rng.choice(sorted(alive)), 1)
    if chained is not None:
        learns(chained, pf + 1)
    return ops
