"""Driver for C06: real RL-hyperparameter mutations on real populations built from ONE shared
HyperparameterConfig object (as agilerl.utils.utils.create_population does), interleaved with clones."""
from __future__ import annotations

from fractions import Fraction

import numpy as np
import torch

from .. import zoo


def dyadic_hp(algo):
    from agilerl.algorithms.core.registry import HyperparameterConfig, RLParameter
    if algo in ("DDPG", "TD3", "MADDPG", "MATD3"):
        return HyperparameterConfig(
            lr_actor=RLParameter(min=2.0 ** -12, max=2.0 ** -4, shrink_factor=0.5, grow_factor=2.0),
            lr_critic=RLParameter(min=2.0 ** -12, max=2.0 ** -5, shrink_factor=0.25, grow_factor=4.0),
            batch_size=RLParameter(min=4, max=16, shrink_factor=0.75, grow_factor=1.5, dtype=int),
            # factors with which an integer value can stall (int(3 * 1.25) = 3): the value then simply stays
            learn_step=RLParameter(min=1, max=8, shrink_factor=0.75, grow_factor=1.25, dtype=int),
            gamma=RLParameter(min=0.5, max=1.0, shrink_factor=1.125, grow_factor=0.875))      # unusual but legitimate factors
    ls = (512, 4096) if algo in ("PPO", "IPPO") else (1, 8)
    return HyperparameterConfig(
        lr=RLParameter(min=2.0 ** -12, max=2.0 ** -4, shrink_factor=0.5, grow_factor=2.0),
        batch_size=RLParameter(min=4, max=16, shrink_factor=0.75, grow_factor=1.5, dtype=int),
        learn_step=(RLParameter(min=ls[0], max=ls[1], shrink_factor=0.5, grow_factor=2.0, dtype=int) if ls[0] > 1 else
                    RLParameter(min=1, max=8, shrink_factor=0.75, grow_factor=1.25, dtype=int)),     # integer values that can stall
        gamma=RLParameter(min=0.5, max=1.0, shrink_factor=1.125, grow_factor=0.875))


def default_hp(algo):
    return zoo.hp_config(algo)          # default factors 0.8 / 1.2 (learn_step 0.75 / 1.5)


def fr(x):
    f = Fraction(float(x))
    return [f.numerator, f.denominator]


def run(algo, NA, ops, exact=True, seed=0, shared=True, eq_lr=False):
    """ops: ("mutate", a) | ("mutpop",) | ("copy", a, c)   (agents 1-based)."""
    from agilerl.hpo.mutation import Mutations

    torch.set_num_threads(1)
    mk = dyadic_hp if exact else default_hp
    hp = mk(algo)
    lrkw = {}
    if exact:
        same = 2.0 ** -8          # eq_lr: the very same float object for both (lr = 1e-3; Algo(lr_actor=lr, lr_critic=lr))
        # eq_lr == "value": two DISTINCT float objects of equal value (e.g. read from a configuration file)
        other = float(str(same)) if eq_lr == "value" else same
        assert eq_lr != "value" or (other is not same and other == same)
        lrkw = dict(lr_actor=same, lr_critic=(other if eq_lr else 2.0 ** -7)) if algo in ("DDPG", "TD3", "MADDPG", "MATD3") else dict(lr=2.0 ** -8)
        # a float-configured hyperparameter may be held as a Python int (gamma=1): populations with their own configuration
        # objects start like that
        lrkw["gamma"] = 0.75 if shared else 1
    def _mk(i):
        try:
            return zoo.make_agent(algo, "vector", seed=seed + i, index=i, hp=(hp if shared else mk(algo)), **lrkw)
        except AssertionError:
            if isinstance(lrkw.get("gamma"), int):          # this algorithm insists on a float gamma
                return zoo.make_agent(algo, "vector", seed=seed + i, index=i, hp=(hp if shared else mk(algo)), **dict(lrkw, gamma=1.0))
            raise
    pop = [_mk(i) for i in range(NA)]
    names = list(pop[0].registry.hp_config.names())
    def intended(opt_name):
        """which learning-rate hyperparameter an optimizer is meant to use (by its attribute name)"""
        if "critic" in opt_name and hasattr(pop[0], "lr_critic"):
            return "lr_critic"
        if "actor" in opt_name and hasattr(pop[0], "lr_actor"):
            return "lr_actor"
        return "lr" if hasattr(pop[0], "lr") else None
    lrnames = {intended(c.name) for c in pop[0].registry.optimizers} - {None}
    cfg_hps = []
    for n in names:
        p = pop[0].registry.hp_config[n]
        cfg_hps.append({"name": n, "min": fr(p.min), "max": fr(p.max), "shrink": fr(p.shrink_factor), "grow": fr(p.grow_factor),
                        "isint": p.dtype is int, "islr": n in lrnames})
    mut = Mutations(no_mutation=0, architecture=0, new_layer_prob=0.5, parameters=0, activation=0, rl_hp=1,
                    mutation_sd=0.1, mutate_elite=True, rand_seed=seed + 5)

    def vals():
        return [[getattr(a, n) for n in names] for a in pop]

    def lrs_of(a):
        out = []
        for n in names:
            cur = []
            for c in a.registry.optimizers:
                if intended(c.name) == n:
                    w = getattr(a, c.name)
                    ol = w.optimizer if isinstance(w.optimizer, list) else [w.optimizer]
                    cur += [g["lr"] for o in ol for g in o.param_groups]
            out.append(cur)
        return out

    init = [[fr(v) for v in row] for row in vals()]
    ev = []
    for k, op in enumerate(ops):
        e = {"op": op[0], "exc": ""}
        before = vals()
        try:
            zoo.seed_all(seed * 977 + k)
            if op[0] == "mutate":
                a = op[1] - 1
                out = mut.mutation([pop[a]])
                pop[a] = out[0]
                e["a"] = a + 1
                e["h"] = names.index(pop[a].mut) + 1 if pop[a].mut in names else 0
                changed = [a]
            elif op[0] == "mutpop":
                out = mut.mutation(pop)
                pop[:] = out
                e["hs"] = [names.index(x.mut) + 1 if x.mut in names else 0 for x in pop]
                changed = list(range(NA))
            elif op[0] == "learn":
                a = op[1] - 1
                zoo.learn(pop[a], algo, op[2])          # optimizer state becomes non-empty before later mutations
                e["op"] = "noop"
                changed = []
            elif op[0] == "set":
                # an assignment from outside (a schedule): a hyperparameter that is no learning rate gets another in-range value
                a = op[1] - 1
                cand = [n for n in names if n not in lrnames]
                n = cand[op[2] % len(cand)]
                p_ = pop[a].registry.hp_config[n]
                x = p_.dtype(p_.max) if getattr(pop[a], n) != p_.dtype(p_.max) else p_.dtype(p_.min)
                setattr(pop[a], n, x)
                e["a"], e["h"], e["x"] = a + 1, names.index(n) + 1, fr(x)
                changed = [a]
            elif op[0] == "copy":
                a, c = op[1] - 1, op[2] - 1
                pop[c] = pop[a].clone(index=pop[c].index)
                e["a"], e["c"] = a + 1, c + 1
                changed = [c]
            after = vals()
            e["after"] = [[fr(v) for v in row] for row in after]
            e["lrs"] = [[[fr(x) for x in l] for l in lrs_of(a_)] for a_ in pop]
            if not exact:
                # facts, measured with the same definitions as the specification (tolerance 1e-9 relative)
                e["op"] = "facts"
                oth = all(after[b] == before[b] for b in range(NA) if b not in changed)
                one, own, rng_ok, isint, lre = True, True, True, True, True
                if op[0] not in ("copy", "learn", "set"):
                    for a_ in changed:
                        diff = [g for g in range(len(names)) if after[a_][g] != before[a_][g]]
                        m = pop[a_].mut
                        h = names.index(m) if m in names else -1
                        one = one and h >= 0 and all(g == h for g in diff)
                        if h >= 0:
                            p = pop[a_].registry.hp_config[names[h]]
                            cands = []
                            for f in (p.shrink_factor, p.grow_factor):
                                x = min(max(before[a_][h] * f, p.min), p.max)
                                cands.append(int(x) if p.dtype is int else x)
                            own = own and any(abs(after[a_][h] - c) <= 1e-9 * max(1.0, abs(c)) for c in cands)
                            rng_ok = rng_ok and p.min <= after[a_][h] <= p.max
                            isint = isint and (p.dtype is not int or float(after[a_][h]).is_integer())
                            if names[h] in lrnames:
                                lre = lre and all(x == after[a_][h] for x in lrs_of(pop[a_])[h])
                e.update({"others_unchanged": bool(oth), "one_changed": bool(one), "own_base": bool(own), "in_range": bool(rng_ok),
                          "is_int": bool(isint), "lr_effective": bool(lre), "before": before, "after_f": after})
                e.pop("after", None)
                e.pop("lrs", None)
        except Exception as ex:
            import traceback
            e["exc"] = f"{type(ex).__name__}: {ex}"[:200]
            e["tb"] = traceback.format_exc()[-400:]
            e.setdefault("a", 1); e.setdefault("h", 1); e.setdefault("c", 1); e.setdefault("hs", [1] * NA)
            e["after"] = init
            e["lrs"] = [[[] for _ in names] for _ in range(NA)]
            for f in ("others_unchanged", "one_changed", "own_base", "in_range", "is_int", "lr_effective"):
                e[f] = False
            ev.append(e)
            break
        ev.append(e)
    return {"cfg": {"algo": algo, "NA": NA, "hps": cfg_hps, "init": init, "exact": bool(exact), "shared": bool(shared), "eq_lr": (eq_lr if eq_lr == "value" else bool(eq_lr))}, "ev": ev}
