"""Drivers for C09: run operation sequences on the real ReplayBuffer / MultiAgentReplayBuffer with
identified data and record one event per public call carrying the projected post-state."""
from __future__ import annotations

import numpy as np
import torch
from tensordict import TensorDict

from .. import codec
from ..codec import F_ACT, F_NOBS, F_OBS, F_REW


# ----------------------------------------------------------------------------- single agent
def make_batch(kind: str, ids):
    """A TensorDict of len(ids) transitions as train_off_policy builds them (Transition tensorclass)."""
    from agilerl.components.data import Transition

    obs = codec.stack_obs(kind, ids, F_OBS)
    nobs = codec.stack_obs(kind, ids, F_NOBS)
    action = np.array([[codec.val(i, F_ACT)] for i in ids], dtype=np.float32)
    reward = np.array([codec.val(i, F_REW) for i in ids], dtype=np.float32)
    done = np.array([i % 2 for i in ids], dtype=np.float32)
    t = Transition(obs=obs, action=action, reward=reward, next_obs=nobs, done=done)
    t = t.to_tensordict()
    t.batch_size = [len(ids)]
    return t


def decode_row(kind: str, row) -> int:
    """id of one stored / sampled row, 0 if its fields do not belong together."""
    o = codec.decode_obs(kind, row["obs"], F_OBS)
    n = codec.decode_obs(kind, row["next_obs"], F_NOBS)
    a = codec.decode_array(row["action"], F_ACT)
    r = codec.decode_array(row["reward"], F_REW)
    d = np.asarray(row["done"]).reshape(-1)
    if o is None or o != n or o != a or o != r:
        return 0
    if d.size != 1 or int(d[0]) != o % 2:
        return 0
    return o


def decode_batch(kind, td):
    n = td.batch_size[0] if hasattr(td, "batch_size") else len(td)
    return [decode_row(kind, td[i]) for i in range(n)]


def project_single(buf, kind, handed):
    n = len(buf)
    contents = decode_batch(kind, buf.storage[:n]) if n > 0 else []
    handed_ok = all(decode_batch(kind, b) == ids for b, ids in handed)
    return {"size": int(n), "contents": contents, "rows_ok": all(c > 0 for c in contents),
            "handed_ok": bool(handed_ok)}


def run_single(N: int, kind: str, ops, use_sampler: bool = False, seed: int = 0):
    """ops: ("add", w) | ("sample", B) | ("clear",). Returns a trace dict for Ring_Trace."""
    from agilerl.components.replay_buffer import ReplayBuffer
    from agilerl.components.sampler import Sampler

    torch.manual_seed(seed)
    buf = ReplayBuffer(max_size=N)
    sampler = Sampler(memory=buf) if use_sampler else None
    nxt = 1
    handed = []
    ev = []
    for op in ops:
        e = {"op": op[0], "exc": ""}
        try:
            if op[0] == "add":
                w = op[1]
                e["w"] = w
                ids = list(range(nxt, nxt + w))
                nxt += w
                buf.add(make_batch(kind, ids))
            elif op[0] == "sample":
                B = op[1]
                e["B"] = B
                e["ids"] = []
                b = sampler.sample(B) if sampler else buf.sample(B)
                ids = decode_batch(kind, b)
                handed.append((b, ids))
                e["ids"] = ids
            elif op[0] == "clear":
                buf.clear()
            else:
                raise ValueError(op)
            e.update(project_single(buf, kind, handed))
        except Exception as ex:      # the real code raised: logged, the trace ends here
            e["exc"] = f"{type(ex).__name__}: {ex}"[:200]
            e.update({"size": -1, "contents": [], "rows_ok": False, "handed_ok": False})
            ev.append(e)
            break
        ev.append(e)
    return {"cfg": {"N": N, "kind": kind, "sampler": use_sampler}, "ev": ev}


# ----------------------------------------------------------------------------- multi agent
MA_FIELDS = ["obs", "action", "reward", "next_obs", "done"]


def ma_experience(kind, agents, ids):
    """Vectorised dictionaries (one per field) for environments carrying ids; ids=None -> single env."""
    single = not isinstance(ids, (list, tuple))
    idl = [ids] if single else list(ids)

    order_no = [0]

    def per_agent(fn):
        # the {agent: value} dictionaries of the different fields list the agents in different orders
        # (dictionary order carries no meaning; values belong to their key)
        order_no[0] += 1
        ks = list(range(len(agents)))
        r = order_no[0] % max(1, len(agents))
        ks = ks[r:] + ks[:r]
        if order_no[0] % 2 == 0:
            ks = ks[::-1]
        return {agents[k]: fn(k) for k in ks}

    def sq(x):
        if not single:
            return x
        if isinstance(x, dict):
            return {k: v[0] for k, v in x.items()}
        if isinstance(x, tuple):
            return tuple(v[0] for v in x)
        return x[0]

    obs = per_agent(lambda k: sq(codec.stack_obs(kind, idl, F_OBS, agent=k)))
    nobs = per_agent(lambda k: sq(codec.stack_obs(kind, idl, F_NOBS, agent=k)))
    act = per_agent(lambda k: sq(np.array([[codec.val(i, F_ACT + 16 * k)] for i in idl], dtype=np.float32)))
    rew = per_agent(lambda k: sq(np.array([codec.val(i, F_REW + 16 * k) for i in idl], dtype=np.float32)))
    done = per_agent(lambda k: sq(np.array([i % 2 for i in idl], dtype=np.float32)))
    return obs, act, rew, nobs, done


def ma_decode_exp(kind, agents, get):
    """get(field, agent) -> unbatched value. Returns id or 0."""
    ids = set()
    for k, ag in enumerate(agents):
        o = codec.decode_obs(kind, get("obs", ag), F_OBS, agent=k)
        n = codec.decode_obs(kind, get("next_obs", ag), F_NOBS, agent=k)
        a = codec.decode_array(get("action", ag), F_ACT + 16 * k)
        r = codec.decode_array(get("reward", ag), F_REW + 16 * k)
        d = np.asarray(get("done", ag)).reshape(-1)
        if o is None or not (o == n == a == r) or d.size != 1 or int(d[0]) != o % 2:
            return 0
        ids.add(o)
    return ids.pop() if len(ids) == 1 else 0


def _unb(x, i):
    if isinstance(x, dict):
        return {k: np.asarray(v[i]) for k, v in x.items()}
    if isinstance(x, (tuple, list)):
        return tuple(np.asarray(v[i]) for v in x)
    return np.asarray(x[i])


def ma_decode_batch(kind, agents, batch, B):
    """batch: tuple of per-field dicts agent -> stacked tensor (as returned by sample)."""
    fields = dict(zip(MA_FIELDS, batch))

    def conv(x):
        if isinstance(x, dict):
            return {k: conv(v) for k, v in x.items()}
        if isinstance(x, (tuple, list)):
            return tuple(conv(v) for v in x)
        return x.detach().cpu().numpy() if isinstance(x, torch.Tensor) else np.asarray(x)

    fields = {f: {ag: conv(v) for ag, v in d.items()} for f, d in fields.items()}
    return [ma_decode_exp(kind, agents, lambda f, ag, i=i: _unb(fields[f][ag], i)) for i in range(B)]


def project_ma(buf, kind, agents, handed):
    contents = [ma_decode_exp(kind, agents, lambda f, ag, e=e: getattr(e, f)[ag]) for e in buf.memory]
    handed_ok = all(ma_decode_batch(kind, agents, b, len(ids)) == ids for b, ids in handed)
    return {"size": int(len(buf)), "contents": contents, "rows_ok": all(c > 0 for c in contents),
            "handed_ok": bool(handed_ok)}


def run_ma(N: int, kind: str, n_agents: int, ops, seed: int = 0, via_dispatch: bool = False):
    import random

    from agilerl.components.multi_agent_replay_buffer import MultiAgentReplayBuffer

    random.seed(seed)
    agents = [f"agent_{k}" for k in range(n_agents)]
    buf = MultiAgentReplayBuffer(N, field_names=MA_FIELDS, agent_ids=agents)
    nxt = 1
    handed = []
    ev = []
    for op in ops:
        e = {"op": op[0], "exc": ""}
        try:
            if op[0] == "save1":
                args = ma_experience(kind, agents, nxt)
                nxt += 1
                if via_dispatch:
                    buf.save_to_memory(*args, is_vectorised=False)
                else:
                    buf.save_to_memory_single_env(*args)
            elif op[0] == "savev":
                w = op[1]
                e["w"] = w
                args = ma_experience(kind, agents, list(range(nxt, nxt + w)))
                nxt += w
                if via_dispatch:
                    buf.save_to_memory(*args, is_vectorised=True)
                else:
                    buf.save_to_memory_vect_envs(*args)
            elif op[0] == "sample":
                B = op[1]
                e["B"] = B
                e["ids"] = []
                b = buf.sample(B)
                ids = ma_decode_batch(kind, agents, b, B)
                handed.append((b, ids))
                e["ids"] = ids
            else:
                raise ValueError(op)
            e.update(project_ma(buf, kind, agents, handed))
        except Exception as ex:
            e["exc"] = f"{type(ex).__name__}: {ex}"[:200]
            e.update({"size": -1, "contents": [], "rows_ok": False, "handed_ok": False})
            ev.append(e)
            break
        ev.append(e)
    return {"cfg": {"N": N, "kind": kind, "agents": n_agents}, "ev": ev}
