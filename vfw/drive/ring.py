"""Drivers for C09: run operation sequences on the real ReplayBuffer / MultiAgentReplayBuffer with
identified data and record one event per public call carrying the projected post-state.

Dimensions varied besides the operation sequence (all derived deterministically from `seed` / `opts`, see DEFAULTS):
observation kind (codec kinds + "scalar", "dscalar": members of rank 0, the code's reshape-to-(n,1) path), action shape
(discrete (w,), (w,1), (w,k)), how a width-1 addition is built (batched, or unbatched + unsqueeze(0) as train_off_policy
does for a non-vectorised environment), key order of the added TensorDict, the `dtype` constructor option, the way a
batch is drawn (buffer.sample, Sampler(memory=..), Sampler(dataset=.., dataloader=..)), `return_idx`, and a caller that
overwrites the batch it was handed in place (as DDPG/TD3.learn do with the actions)."""
from __future__ import annotations

import numpy as np
import torch
from tensordict import TensorDict

from .. import codec
from ..codec import F_ACT, F_NOBS, F_OBS, F_REW

# observation kinds known to this driver: the four of the codec and two with rank-0 members
EXTRA_KINDS = ("scalar", "dscalar")
ALL_KINDS = tuple(codec.OBS_KINDS) + EXTRA_KINDS


HALF = "+h"     # kind suffix: every encoded value is shifted by one half (id*64 + code + 0.5, float32-exact), so that a field
                # that passes through an integer type on its way into or out of the buffer no longer decodes


def split_kind(kind: str):
    return (kind[:-len(HALF)], 0.5) if kind.endswith(HALF) else (kind, 0.0)


def _shift(x, off):
    if off == 0.0:
        return x
    if isinstance(x, dict):
        return {k: _shift(v, off) for k, v in x.items()}
    if isinstance(x, tuple):
        return tuple(_shift(v, off) for v in x)
    return np.asarray(np.asarray(x, dtype=np.float64) + off, dtype=np.float32)          # (rank-0 arrays stay arrays)


def fval(kind: str, i: int, code: int) -> float:
    return codec.val(i, code) + split_kind(kind)[1]


def decode_val(kind: str, a, code: int):
    return codec.decode_array(np.asarray(a, dtype=np.float64) - split_kind(kind)[1], code)


def make_obs(kind: str, i: int, field: int, agent: int = 0):
    base, off = split_kind(kind)
    code = field + 16 * agent
    if base == "scalar":
        o = np.array(codec.val(i, code), dtype=np.float32)
    elif base == "dscalar":
        o = {"vec": np.full((2,), codec.val(i, code), dtype=np.float32), "s": np.array(codec.val(i, code + 8), dtype=np.float32)}
    else:
        o = codec.make_obs(base, i, field, agent)
    return _shift(o, off)


def stack_obs(kind: str, ids, field: int, agent: int = 0):
    base, off = split_kind(kind)
    if base == "scalar":
        return np.stack([make_obs(kind, i, field, agent) for i in ids])                 # (w,)
    if base == "dscalar":
        obs = [make_obs(kind, i, field, agent) for i in ids]
        return {k: np.stack([o[k] for o in obs]) for k in obs[0]}                        # vec (w,2), s (w,)
    return _shift(codec.stack_obs(base, ids, field, agent), off)


def _unshift(o, off):
    if off == 0.0:
        return o
    if isinstance(o, (tuple, list)):
        return tuple(_unshift(v, off) for v in o)
    if isinstance(o, (np.ndarray, torch.Tensor, float, int, np.generic)):
        return np.asarray(o, dtype=np.float64) - off
    try:                                    # mapping (dict / TensorDict)
        return {k: _unshift(o[k], off) for k in o.keys()}
    except AttributeError:
        return np.asarray(o, dtype=np.float64) - off


def decode_obs(kind: str, o, field: int, agent: int = 0):
    base, off = split_kind(kind)
    code = field + 16 * agent
    try:
        o = _unshift(o, off)
    except (TypeError, ValueError):
        return None
    if base == "scalar":
        return codec.decode_array(o, code)
    if base == "dscalar":
        a, b = codec.decode_array(o["vec"], code), codec.decode_array(o["s"], code + 8)
        return a if (a is not None and a == b) else None
    return codec.decode_obs(base, o, field, agent)


# ----------------------------------------------------------------------------- single agent
def _cast(x, dt):
    if dt is None:
        return x
    if isinstance(x, dict):
        return {k: _cast(v, dt) for k, v in x.items()}
    if isinstance(x, tuple):
        return tuple(_cast(v, dt) for v in x)
    return np.asarray(x).astype(dt)


def make_batch(kind: str, ids, act_dim: int = 1, unbatched: bool = False, key_order=None, obs_dtype=None):
    """A TensorDict of len(ids) transitions as train_off_policy builds them (Transition tensorclass).
    act_dim: 0 -> discrete actions of shape (w,), k >= 1 -> (w, k).
    unbatched (one id only): the transition of a non-vectorised environment -- unbatched values, done = np.array([d]),
    then unsqueeze(0), exactly as train_off_policy does.
    obs_dtype: numpy dtype of the observation arrays (None: float32), e.g. "int64" / "float64" (plain observations keep it in
    the storage, dict / tuple observations are converted to float32 by the Transition class)."""
    from agilerl.components.data import Transition

    if split_kind(kind)[1]:
        obs_dtype = None if obs_dtype in ("int64", "int32") else obs_dtype          # half-integers need a float type

    if unbatched:
        assert len(ids) == 1
        i = ids[0]
        action = np.array(fval(kind, i, F_ACT), dtype=np.float32) if act_dim == 0 else np.full((act_dim,), fval(kind, i, F_ACT), dtype=np.float32)
        t = Transition(obs=_cast(make_obs(kind, i, F_OBS), obs_dtype), action=action, reward=float(fval(kind, i, F_REW)),
                       next_obs=_cast(make_obs(kind, i, F_NOBS), obs_dtype), done=np.array([i % 2], dtype=np.float32))
        t = t.unsqueeze(0)
    else:
        obs = _cast(stack_obs(kind, ids, F_OBS), obs_dtype)
        nobs = _cast(stack_obs(kind, ids, F_NOBS), obs_dtype)
        if act_dim == 0:
            action = np.array([fval(kind, i, F_ACT) for i in ids], dtype=np.float32)
        else:
            action = np.array([[fval(kind, i, F_ACT)] * act_dim for i in ids], dtype=np.float32)
        reward = np.array([fval(kind, i, F_REW) for i in ids], dtype=np.float32)
        done = np.array([i % 2 for i in ids], dtype=np.float32)
        t = Transition(obs=obs, action=action, reward=reward, next_obs=nobs, done=done)
    t = t.to_tensordict()
    t.batch_size = [len(ids)]
    if key_order is not None:
        t = TensorDict({k: t[k] for k in key_order}, batch_size=[len(ids)])
    return t


def decode_row(kind: str, row, act_dim=None) -> int:
    """id of one stored / sampled row, 0 if its fields do not belong together (act_dim given: or the action lost components)."""
    o = decode_obs(kind, row["obs"], F_OBS)
    n = decode_obs(kind, row["next_obs"], F_NOBS)
    a = decode_val(kind, row["action"], F_ACT)
    r = decode_val(kind, row["reward"], F_REW)
    d = np.asarray(row["done"]).reshape(-1)
    if o is None or o != n or o != a or o != r:
        return 0
    if d.size != 1 or int(d[0]) != o % 2:
        return 0
    if act_dim is not None and np.asarray(row["action"]).size != max(1, act_dim):
        return 0
    return o


def decode_batch(kind, td, act_dim=None):
    n = td.batch_size[0] if hasattr(td, "batch_size") else len(td)
    return [decode_row(kind, td[i], act_dim) for i in range(n)]


def project_single(buf, kind, handed, act_dim=None):
    n = len(buf)
    contents = decode_batch(kind, buf.storage[:n], act_dim) if n > 0 else []
    handed_ok = all(decode_batch(kind, b, act_dim) == ids for b, ids in handed)
    # the reported length: len(buffer), which .size and .is_full must agree with
    coherent = (buf.size == n) and (bool(buf.is_full) == (n == buf.max_size))
    return {"size": int(n) if coherent else -2, "contents": contents, "rows_ok": all(c > 0 for c in contents),
            "handed_ok": bool(handed_ok)}


def _clobber(td):
    """What a learner may do with the batch it was handed: overwrite it in place."""
    for k in list(td.keys(True, True)):
        v = td[k]
        if isinstance(v, torch.Tensor):
            v.fill_(-7)


SAMPLER_MODES = ("direct", "sampler", "distributed")
KEYS = ["obs", "action", "next_obs", "reward", "done"]


def run_single(N: int, kind: str, ops, use_sampler=False, seed: int = 0, opts=None):
    """ops: ("add", w) | ("sample", B) | ("clear",). Returns a trace dict for Ring_Trace.
    use_sampler: False/0 buffer.sample, True/1 Sampler(memory=buffer), 2 Sampler(dataset, dataloader) (the accelerator path).
    opts (all optional): act_dim, obs_dtype (None|"int64"|"float64"), dtype ("float32"|"float64"), vary (default True: unbatched width-1 additions, key order,
    return_idx and in-place modification of handed batches vary along the run), handed_max (keep only the most recent
    handed_max handed-out batches under observation; default: all)."""
    from agilerl.components.data import ReplayDataset
    from agilerl.components.replay_buffer import ReplayBuffer
    from agilerl.components.sampler import Sampler
    from torch.utils.data import DataLoader

    o = {"act_dim": 1, "dtype": "float32", "obs_dtype": None, "vary": True, "handed_max": None}
    o.update(opts or {})
    mode = SAMPLER_MODES[int(use_sampler)]
    torch.manual_seed(seed)
    buf = ReplayBuffer(max_size=N, dtype=getattr(torch, o["dtype"]))
    if mode == "sampler":
        sampler = Sampler(memory=buf)
    elif mode == "distributed":
        ds = ReplayDataset(buf, batch_size=1)
        sampler = Sampler(dataset=ds, dataloader=DataLoader(ds, batch_size=None))
    else:
        sampler = None
    nxt = 1
    handed = []
    ev = []
    n_add = n_sample = 0
    for op in ops:
        e = {"op": op[0], "exc": ""}
        try:
            if op[0] == "add":
                w = op[1]
                e["w"] = w
                ids = list(range(nxt, nxt + w))
                nxt += w
                n_add += 1
                unb = o["vary"] and w == 1 and (n_add + seed) % 2 == 0
                ko = None
                if o["vary"] and (n_add + seed) % 3 == 0:
                    r = (n_add + seed) % 5
                    ko = KEYS[r:] + KEYS[:r]
                    if n_add % 2:
                        ko = ko[::-1]
                buf.add(make_batch(kind, ids, act_dim=o["act_dim"], unbatched=unb, key_order=ko, obs_dtype=o["obs_dtype"]))
            elif op[0] == "sample":
                B = op[1]
                e["B"] = B
                e["ids"] = []
                e["idx_ok"] = True
                n_sample += 1
                want_idx = o["vary"] and mode != "distributed" and (n_sample + seed) % 2 == 0
                if mode == "direct":
                    b = buf.sample(B, True) if want_idx else buf.sample(B)
                elif mode == "sampler":
                    b = sampler.sample(B, return_idx=True) if want_idx else sampler.sample(B)
                else:
                    b = sampler.sample(B)
                ids = decode_batch(kind, b, o["act_dim"])
                e["ids"] = ids
                if want_idx:
                    # "index of samples randomly selected": row i of the batch is the row stored at position idxs[i]
                    idxs = [int(x) for x in b["idxs"].reshape(-1).tolist()]
                    e["idx_ok"] = bool(len(idxs) == len(ids) and all(0 <= x < len(buf) for x in idxs)
                                       and [decode_row(kind, buf.storage[x], o["act_dim"]) for x in idxs] == ids)
                if o["vary"] and (n_sample + seed) % 3 == 0:
                    _clobber(b)                 # the learner overwrites its batch in place: the buffer must not notice
                else:
                    handed.append((b, ids))
                    if o["handed_max"] and len(handed) > o["handed_max"]:
                        del handed[0]
            elif op[0] == "clear":
                buf.clear()
            else:
                raise ValueError(op)
            e.update(project_single(buf, kind, handed, o["act_dim"]))
        except Exception as ex:      # the real code raised: logged, the trace ends here
            e["exc"] = f"{type(ex).__name__}: {ex}"[:200]
            e.update({"size": -1, "contents": [], "rows_ok": False, "handed_ok": False})
            e.setdefault("idx_ok", False)
            ev.append(e)
            break
        ev.append(e)
    return {"cfg": {"N": N, "kind": kind, "sampler": mode, "act_dim": o["act_dim"], "dtype": o["dtype"], "obs_dtype": str(o["obs_dtype"])}, "ev": ev}


# ----------------------------------------------------------------------------- multi agent
MA_FIELDS = ["obs", "action", "reward", "next_obs", "done"]          # canonical names (positions in the sampled tuple)
# field names the buffer is constructed with (the done-like names are cast to uint8 by the buffer)
MA_FIELD_NAMES = (MA_FIELDS,
                  ["state", "action", "reward", "next_state", "terminated"],
                  ["obs", "action", "reward", "next_obs", "termination"])
MA_AGENT_NAMES = (None, ["speaker_0", "listener_0", "adversary_1"], ["b", "a", "c"])


def ma_kind(kind: str, k: int) -> str:
    """Observation kind of agent k. "mixed": heterogeneous agents (vector / image / dict / scalar ...)."""
    base, off = split_kind(kind)
    suffix = HALF if off else ""
    if base == "mixed":
        return ("vector", "image", "dict", "scalar", "tuple")[k % 5] + suffix
    if base == "mixed2":
        return ("tuple", "scalar", "vector")[k % 3] + suffix
    return kind


def ma_act_dim(kind: str, k: int) -> int:
    return 1 + (k % 2) if split_kind(kind)[0] in ("mixed", "mixed2") else 1


def ma_experience(kind, agents, ids, py_scalars: bool = False, bool_done: bool = False):
    """Vectorised dictionaries (one per field) for environments carrying ids; ids=None -> single env.
    py_scalars (single env): rewards / dones are Python float / bool as a PettingZoo parallel env returns them."""
    single = not isinstance(ids, (list, tuple))
    idl = [ids] if single else list(ids)

    order_no = [0]

    def per_agent(fn):
        # the {agent: value} dictionaries of the different fields list the agents in different orders
        # (dictionary order carries no meaning; values belong to their key)
        order_no[0] += 1
        ks = list(range(len(agents)))
        r = order_no[0] % max(1, len(agents))
        ks = ks[r:] + ks[:r]
        if order_no[0] % 2 == 0:
            ks = ks[::-1]
        return {agents[k]: fn(k) for k in ks}

    def sq(x):
        if not single:
            return x
        if isinstance(x, dict):
            return {k: v[0] for k, v in x.items()}
        if isinstance(x, tuple):
            return tuple(v[0] for v in x)
        return x[0]

    def scal(x):
        x = sq(x)
        if single and py_scalars:
            return x.item()
        return x

    ddt = np.bool_ if bool_done else np.float32
    obs = per_agent(lambda k: sq(stack_obs(ma_kind(kind, k), idl, F_OBS, agent=k)))
    nobs = per_agent(lambda k: sq(stack_obs(ma_kind(kind, k), idl, F_NOBS, agent=k)))
    act = per_agent(lambda k: sq(np.array([[fval(kind, i, F_ACT + 16 * k)] * ma_act_dim(kind, k) for i in idl], dtype=np.float32)))
    rew = per_agent(lambda k: scal(np.array([fval(kind, i, F_REW + 16 * k) for i in idl], dtype=np.float32)))
    done = per_agent(lambda k: scal(np.array([i % 2 for i in idl], dtype=ddt)))
    return obs, act, rew, nobs, done


def ma_decode_exp(kind, agents, get):
    """get(field, agent) -> unbatched value. Returns id or 0."""
    ids = set()
    for k, ag in enumerate(agents):
        o = decode_obs(ma_kind(kind, k), get("obs", ag), F_OBS, agent=k)
        n = decode_obs(ma_kind(kind, k), get("next_obs", ag), F_NOBS, agent=k)
        a = decode_val(kind, get("action", ag), F_ACT + 16 * k)
        r = decode_val(kind, get("reward", ag), F_REW + 16 * k)
        d = np.asarray(get("done", ag)).reshape(-1)
        if o is None or not (o == n == a == r) or d.size != 1 or int(d[0]) != o % 2:
            return 0
        if np.asarray(get("action", ag)).size != ma_act_dim(kind, k):
            return 0
        ids.add(o)
    return ids.pop() if len(ids) == 1 else 0


def _unb(x, i):
    if isinstance(x, dict):
        return {k: np.asarray(v[i]) for k, v in x.items()}
    if isinstance(x, (tuple, list)):
        return tuple(np.asarray(v[i]) for v in x)
    return np.asarray(x[i])


def ma_decode_batch(kind, agents, batch, B):
    """batch: tuple of per-field dicts agent -> stacked tensor (as returned by sample)."""
    fields = dict(zip(MA_FIELDS, batch))

    def conv(x):
        if isinstance(x, dict):
            return {k: conv(v) for k, v in x.items()}
        if isinstance(x, (tuple, list)):
            return tuple(conv(v) for v in x)
        return x.detach().cpu().numpy() if isinstance(x, torch.Tensor) else np.asarray(x)

    fields = {f: {ag: conv(v) for ag, v in d.items()} for f, d in fields.items()}
    if any(set(d) != set(agents) for d in fields.values()):
        return [0] * B
    return [ma_decode_exp(kind, agents, lambda f, ag, i=i: _unb(fields[f][ag], i)) for i in range(B)]


def _ma_clobber(x):
    if isinstance(x, dict):
        for v in x.values():
            _ma_clobber(v)
    elif isinstance(x, (tuple, list)):
        for v in x:
            _ma_clobber(v)
    elif isinstance(x, torch.Tensor):
        x.fill_(0)


def project_ma(buf, kind, agents, handed, names=None):
    names = names or MA_FIELDS
    real = dict(zip(MA_FIELDS, names))
    contents = [ma_decode_exp(kind, agents, lambda f, ag, e=e: getattr(e, real[f])[ag]) for e in buf.memory]
    handed_ok = all(ma_decode_batch(kind, agents, b, len(ids)) == ids for b, ids in handed)
    return {"size": int(len(buf)), "contents": contents, "rows_ok": all(c > 0 for c in contents),
            "handed_ok": bool(handed_ok)}


def run_ma(N: int, kind: str, n_agents: int, ops, seed: int = 0, via_dispatch: bool = False, opts=None):
    """opts (optional): names (index into MA_FIELD_NAMES), agents (index into MA_AGENT_NAMES), device (None | "cpu"),
    sampler (draw through Sampler(memory=buffer)), py_scalars, bool_done, vary (default True: extra positional argument
    of sample() and in-place modification of handed batches vary along the run)."""
    import random

    from agilerl.components.multi_agent_replay_buffer import MultiAgentReplayBuffer
    from agilerl.components.sampler import Sampler

    o = {"names": 0, "agents": 0, "device": None, "sampler": False, "py_scalars": False, "bool_done": False, "vary": True}
    o.update(opts or {})
    random.seed(seed)
    agents = [f"agent_{k}" for k in range(n_agents)] if not o["agents"] else list(MA_AGENT_NAMES[o["agents"]][:n_agents])
    names = list(MA_FIELD_NAMES[o["names"]])
    buf = MultiAgentReplayBuffer(N, field_names=names, agent_ids=agents, device=o["device"])
    sampler = Sampler(memory=buf) if o["sampler"] else None
    nxt = 1
    handed = []
    ev = []
    n_sample = 0
    for op in ops:
        e = {"op": op[0], "exc": ""}
        try:
            if op[0] == "save1":
                args = ma_experience(kind, agents, nxt, py_scalars=o["py_scalars"], bool_done=o["bool_done"])
                nxt += 1
                if via_dispatch:
                    buf.save_to_memory(*args, is_vectorised=False)
                else:
                    buf.save_to_memory_single_env(*args)
            elif op[0] == "savev":
                w = op[1]
                e["w"] = w
                args = ma_experience(kind, agents, list(range(nxt, nxt + w)), bool_done=o["bool_done"])
                nxt += w
                if via_dispatch:
                    buf.save_to_memory(*args, is_vectorised=True)
                else:
                    buf.save_to_memory_vect_envs(*args)
            elif op[0] == "sample":
                B = op[1]
                e["B"] = B
                e["ids"] = []
                n_sample += 1
                extra = o["vary"] and (n_sample + seed) % 2 == 0
                if sampler is not None:
                    b = sampler.sample(B, return_idx=True) if extra else sampler.sample(B)
                else:
                    b = buf.sample(B, False) if extra else buf.sample(B)
                ids = ma_decode_batch(kind, agents, b, B)
                e["ids"] = ids
                if o["vary"] and (n_sample + seed) % 3 == 0:
                    _ma_clobber(b)
                else:
                    handed.append((b, ids))
            else:
                raise ValueError(op)
            e.update(project_ma(buf, kind, agents, handed, names))
        except Exception as ex:
            e["exc"] = f"{type(ex).__name__}: {ex}"[:200]
            e.update({"size": -1, "contents": [], "rows_ok": False, "handed_ok": False})
            ev.append(e)
            break
        ev.append(e)
    return {"cfg": {"N": N, "kind": kind, "agents": n_agents, "names": o["names"], "agent_names": o["agents"], "device": str(o["device"]),
                    "sampler": bool(o["sampler"]), "py_scalars": bool(o["py_scalars"]), "bool_done": bool(o["bool_done"])}, "ev": ev}
