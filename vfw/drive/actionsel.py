"""Driver for C14 (ActionSel.tla): get_action of the real AgileRL agents on rows of TLC's grid.

The policy network's forward is replaced *here* by a stub returning the row's value vector / raw
output (the network is not under test, the selection logic around it is).  Random draws are either
the library's own (seeded) or, for the `zero-draw` / scripted-noise variants, scripted inputs.
Every call is recorded as one trace for ActionSel_Trace: cfg.call = the abstract call, one event per
agent with the projected result (see the header of ActionSel_Trace.tla).

Rows come from TLC's dump (`CASE` payloads of ActionSel_Dump*.cfg); physical batches are
compositions of grid rows.
"""
from __future__ import annotations

import copy
import random as pyrandom
from unittest import mock

import numpy as np
import torch
from gymnasium import spaces

SC = 8
OFFGRID = 99999999
# level -> float, strictly monotone (only the order of values matters to the specification)
LV_Q = {-2: -1e30, -1: -1.0, 0: 0.0, 1: 1.0, 2: 1e30}              # q-values (extreme magnitudes)
LV_LOGIT = {-2: -1e6, -1: -1.0, 0: 0.0, 1: 1.0, 2: 1e6}            # logits of a categorical policy
LV_LOGIT_X = {-2: -1e9, -1: -1.0, 0: 0.0, 1: 1.0, 2: 1e9}          # ... beyond the -1e8 mask fill
LV_PROB = {-2: 0.0, -1: 0.25, 0: 0.5, 1: 0.75, 2: 1.0}             # output of a (Gumbel-)softmax head

LO_A, HI_A = [-8, 4], [24, 8]
LO_B, HI_B = [-24], [-8]


def net_config(**head):
    return {"encoder_config": {"hidden_size": [16]}, "head_config": {"hidden_size": [16], **head}}


class Stub:
    """Replacement for a network forward: returns the scripted tensor whatever the input."""

    def __init__(self):
        self.t = None
        self.calls = 0

    def __call__(self, *a, **k):
        self.calls += 1
        return self.t


# ----------------------------------------------------------------------------------- observations
OBS_SPACES = {
    "vector": lambda: spaces.Box(-1, 1, (3,), np.float32),
    "discrete": lambda: spaces.Discrete(5),
    "dict": lambda: spaces.Dict({"a": spaces.Box(-1, 1, (2,), np.float32), "b": spaces.Box(-1, 1, (3,), np.float32),
                                 "c": spaces.Discrete(3)}),
    "image": lambda: spaces.Box(0, 1, (1, 16, 16), np.float32),
}


def make_obs(kind, B, single):
    sp = OBS_SPACES[kind]()

    def one(s):
        if isinstance(s, spaces.Discrete):
            return np.zeros((B,), dtype=np.int64) if not single else np.int64(0)
        shp = s.shape if single else (B,) + s.shape
        return np.zeros(shp, dtype=np.float32)

    if isinstance(sp, spaces.Dict):
        return {k: one(s) for k, s in sp.spaces.items()}
    return one(sp)


# ----------------------------------------------------------------------------------- abstract calls
def drow(q, mask, explore, envdef=()):
    return {"q": list(q), "mask": list(mask), "explore": int(explore), "envdef": list(envdef), "x": [], "noise": []}


def crow(x, noise, envdef=()):
    return {"q": [], "mask": [], "explore": 0, "envdef": list(envdef), "x": list(x), "noise": list(noise)}


def dgroup(sizes, single, rows, kind="disc"):
    return {"kind": kind, "single": bool(single), "sizes": list(sizes), "lo": [], "hi": [], "mode": "", "req": "",
            "rows": rows}


def cgroup(lo, hi, mode, req, single, rows):
    return {"kind": "cont", "single": bool(single), "sizes": [], "lo": list(lo), "hi": list(hi), "mode": mode,
            "req": req, "rows": rows}


def space_of(g):
    if g["kind"] == "disc":
        return spaces.Discrete(g["sizes"][0]) if len(g["sizes"]) == 1 else spaces.MultiDiscrete(g["sizes"])
    if g["kind"] == "bits":
        return spaces.MultiBinary(g["sizes"][0])
    return spaces.Box(np.array(g["lo"], np.float32) / SC, np.array(g["hi"], np.float32) / SC)


def width_of(g):
    return len(g["sizes"]) if g["kind"] == "disc" else g["sizes"][0] if g["kind"] == "bits" else len(g["lo"])


# ----------------------------------------------------------------------------------- projection
def project(g, arr, exc=""):
    """Returned array -> event for ActionSel_Trace (public information only: the array and the space)."""
    ev = {"exc": exc, "shape": [], "width": 0, "outs": [], "cls": [], "contains": []}
    if exc:
        return ev
    sp = space_of(g)
    a = np.asarray(arr)
    if a.dtype == object:
        ev["exc"] = "ProjectionError: object array returned"
        return ev
    if a.ndim == 0:
        lead, rows = [], a.reshape(1, 1)
    elif g["single"] and a.shape == sp.shape and a.shape != (1,):
        lead, rows = [], a.reshape(1, -1)             # an unbatched element of the space
    else:
        n0 = a.shape[0]
        lead = [int(n0)]
        rows = a.reshape(n0, -1) if a.size > 0 else a.reshape(n0, 0)
    ev["shape"] = lead
    ev["width"] = int(rows.shape[1]) if rows.size else 0
    for r in rows:
        if g["kind"] == "cont":
            v = r.astype(np.float64) * SC
            out, cl = [], []
            for d in range(len(v)):
                out.append(int(v[d]) if np.isfinite(v[d]) and v[d] == int(v[d]) and abs(v[d]) < 1e8 else OFFGRID)
                if d < len(g["lo"]):
                    cl.append(-1 if not (v[d] >= g["lo"][d]) else 1 if not (v[d] <= g["hi"][d]) else 0)
                else:
                    cl.append(0)
            ev["outs"].append(out)
            ev["cls"].append(cl)
        else:
            ev["outs"].append([int(x) if float(x) == int(x) else OFFGRID for x in r.tolist()])
            ev["cls"].append([])
        try:
            el = r.reshape(sp.shape)
            if isinstance(sp, spaces.Discrete):
                el = el.reshape(())
            ev["contains"].append(bool(sp.contains(el)))
        except Exception:
            ev["contains"].append(False)
    return ev


def trace(alg, mode, variant, obs_kind, groups, events, extra=None):
    cfg = {"alg": alg, "mode": mode, "variant": variant, "obs": obs_kind, "call": groups}
    cfg.update(extra or {})
    return {"cfg": cfg, "ev": events}


def _exc(ex):
    return f"{type(ex).__name__}: {ex}"[:160]


def mask_arg(rows, single):
    m = np.array([r["mask"] for r in rows], dtype=np.int64)
    return m[0] if single else m


def all_ones(rows):
    return all(all(x == 1 for x in r["mask"]) for r in rows)


# ----------------------------------------------------------------------------------- agents
class Zoo:
    """Constructs each (algorithm, spaces) agent once; network forwards are stubbed on the instance."""

    def __init__(self, seed):
        self.seed = seed
        self.cache = {}
        self.shared = {}

    def get(self, key, build):
        if key not in self.cache:
            torch.manual_seed(self.seed)
            np.random.seed(self.seed)
            self.cache[key] = build()
        return self.cache[key]

    def construct(self, cls, *a, **kw):
        """PPO/DDPG/TD3: share_encoders=True cannot be constructed under Python 3.12 (DESIGN.md 6 P)."""
        if "share_encoders" not in kw:
            return cls(*a, **kw)
        try:
            ag = cls(*a, **kw)
            self.shared[cls.__name__] = kw["share_encoders"]
            return ag
        except AssertionError:
            kw = dict(kw, share_encoders=False)
            self.shared[cls.__name__] = False
            return cls(*a, **kw)


def _t(rows, lv, key="q"):
    return torch.tensor([[lv[v] for v in r[key]] for r in rows], dtype=torch.float32)


# =================================================================================== value-based
def run_q(zoo, alg, n, rows, explore, *, single=False, obs_kind="vector", variant="", eps=None, training=True,
          pass_mask=True):
    """DQN / RainbowDQN / CQN on one physical batch of Discrete(n) rows."""
    from agilerl.algorithms.cqn import CQN
    from agilerl.algorithms.dqn import DQN
    from agilerl.algorithms.dqn_rainbow import RainbowDQN

    cls = {"DQN": DQN, "RainbowDQN": RainbowDQN, "CQN": CQN}[alg]

    def build():
        ag = cls(OBS_SPACES[obs_kind](), spaces.Discrete(n),
                 **({"net_config": net_config()} if obs_kind in ("vector", "discrete") else {}))
        ag._stub = Stub()
        ag.actor.forward = ag._stub
        return ag

    ag = zoo.get((alg, n, obs_kind), build)
    g = dgroup([n], single, rows)
    B = len(rows)
    ag._stub.t = _t(rows, LV_Q)
    obs = make_obs(obs_kind, B, single)
    mask = mask_arg(rows, single) if pass_mask else None
    mode = f"explore={explore}" if alg != "RainbowDQN" else f"training={training}"
    epsilon = (eps if eps is not None else float(explore))
    try:
        if alg == "RainbowDQN":
            out = ag.get_action(obs, action_mask=mask, training=training)
        elif variant == "zero-draw":
            # every legal action draws exactly 0.0 (torch.rand / numpy uniform are on [0, 1))
            if alg == "DQN":
                with mock.patch.object(torch, "rand_like", lambda t, **k: torch.zeros_like(t)):
                    out = ag.get_action(obs, epsilon, mask)
            else:
                with mock.patch.object(np.random, "uniform", lambda lo, hi, size=None: np.zeros(size)):
                    out = ag.get_action(obs, epsilon, mask)
        else:
            out = ag.get_action(obs, epsilon, mask)
        ev = project(g, out)
    except Exception as ex:
        ev = project(g, None, _exc(ex))
    return trace(alg, mode, variant or ("eps=%g" % epsilon if alg != "RainbowDQN" else ""), obs_kind, [g], [ev],
                 {"n": n, "masked": bool(pass_mask)})


# =================================================================================== bandits
def run_bandit(zoo, alg, n, row, *, gamma, mask_shape="flat", variant=""):
    """NeuralUCB / NeuralTS: one context set (n arms) -> one arm.  The actor's value is replaced by
    q + (f - f.detach()) so that the value is exactly q while the gradient features stay real."""
    from agilerl.algorithms.neural_ts_bandit import NeuralTS
    from agilerl.algorithms.neural_ucb_bandit import NeuralUCB

    cls = {"NeuralUCB": NeuralUCB, "NeuralTS": NeuralTS}[alg]

    def build():
        ag = cls(spaces.Box(-1, 1, (4,), np.float32), spaces.Discrete(n), net_config=net_config(), gamma=1.0)
        real = ag.actor.forward
        ag._q = None

        def fwd(o, *a, **k):
            f = real(o, *a, **k)
            return ag._q + (f - f.detach())

        ag.actor.forward = fwd
        return ag

    ag = zoo.get((alg, n), build)
    ag.gamma = gamma
    ag._q = torch.tensor([[LV_Q[v]] for v in row["q"]], dtype=torch.float32)
    g = dgroup([n], True, [row])
    rng = np.random.RandomState(zoo.seed + n)
    ctxs = rng.uniform(-1, 1, size=(n, 4)).astype(np.float32)
    pass_mask = not all_ones([row]) or variant == "ones-mask"
    m = np.array(row["mask"], dtype=np.int64)
    if mask_shape == "column":
        m = m.reshape(-1, 1)
    try:
        out = ag.get_action(ctxs, action_mask=m) if pass_mask else ag.get_action(ctxs)
        ev = project(g, out)
    except Exception as ex:
        ev = project(g, None, _exc(ex))
    return trace(alg, f"explore={row['explore']}", variant or mask_shape, "contexts", [g], [ev], {"n": n, "gamma": gamma})


# =================================================================================== PPO
def _ppo(zoo, sp, key, squash=False, evolved=False):
    from agilerl.algorithms.ppo import PPO

    def build():
        nc = net_config()
        if squash:
            nc["squash_output"] = True
        ag = zoo.construct(PPO, OBS_SPACES["vector"](), sp, net_config=nc, share_encoders=True)
        if evolved:
            # the policy after a clone-and-mutate history through the real HPO code, ending on the freshly mutated agent
            # (the individual that agent.test() evaluates before the next tournament clones it)
            from .dist import evolve_agent
            ag = evolve_agent(ag, 0)
        ag._stub = Stub()
        ag.actor.head_net.wrapped.forward = ag._stub
        return ag

    return zoo.get(("PPO", key, squash, evolved), build)


def run_ppo_disc(zoo, g, *, training, variant="", lv=None, pass_mask=True):
    """PPO on Discrete / MultiDiscrete / MultiBinary rows (masks go through the distribution)."""
    sp = space_of(g)
    ag = _ppo(zoo, sp, (g["kind"], tuple(g["sizes"])))
    ag.set_training_mode(training)
    rows = g["rows"]
    ag._stub.t = _t(rows, lv or LV_LOGIT)
    obs = make_obs("vector", len(rows), g["single"])
    try:
        out = ag.get_action(obs, action_mask=mask_arg(rows, g["single"]) if pass_mask else None)[0]
        ev = project(g, out)
    except Exception as ex:
        ev = project(g, None, _exc(ex))
    return trace("PPO", f"training={training}", variant, "vector", [g], [ev], {"masked": bool(pass_mask)})


def run_ppo_cont(zoo, g, *, training, squash, variant="", evolved=False):
    sp = space_of(g)
    ag = _ppo(zoo, sp, ("cont", tuple(g["lo"]), tuple(g["hi"])), squash, evolved)
    ag.set_training_mode(training)
    rows = g["rows"]
    ag._stub.t = torch.tensor([[v / SC for v in r["x"]] for r in rows], dtype=torch.float32)
    obs = make_obs("vector", len(rows), g["single"])
    try:
        out = ag.get_action(obs)[0]
        ev = project(g, out)
    except Exception as ex:
        ev = project(g, None, _exc(ex))
    return trace("PPO", f"training={training}", variant or (("squash" if squash else "clip") + ("+evolved" if evolved else "")), "vector", [g], [ev])


# =================================================================================== DDPG / TD3
ACT_OF_MODE = {"tanh": "Tanh", "sigm": "Sigmoid", "none": None}


def run_ddpg(zoo, alg, g, *, training, variant=""):
    """DDPG / TD3: the actor's head (incl. its output activation) is stubbed with x; DeterministicActor's
    rescaling, the exploration noise addition and the clip are the code under test.  Gaussian noise draws are
    scripted (numpy.random.normal) so that the expected value is exact."""
    from agilerl.algorithms.ddpg import DDPG
    from agilerl.algorithms.td3 import TD3

    cls = {"DDPG": DDPG, "TD3": TD3}[alg]
    sp = space_of(g)
    B = len(g["rows"])

    def build():
        ag = zoo.construct(cls, OBS_SPACES["vector"](), sp, net_config=net_config(output_activation=ACT_OF_MODE[g["mode"]]),
                           share_encoders=True, O_U_noise=False, vect_noise_dim=B)
        ag._stub = Stub()
        ag.actor.head_net.forward = ag._stub
        assert ag.actor.output_activation == ACT_OF_MODE[g["mode"]], ag.actor.output_activation
        return ag

    ag = zoo.get((alg, tuple(g["lo"]), tuple(g["hi"]), g["mode"], B), build)
    rows = g["rows"]
    ag._stub.t = torch.tensor([[v / SC for v in r["x"]] for r in rows], dtype=torch.float32)
    noise = np.array([[v / SC for v in r["noise"]] for r in rows], dtype=np.float64)
    obs = make_obs("vector", B, g["single"])
    try:
        with mock.patch.object(np.random, "normal", lambda *a, size=None, **k: noise.reshape(size)):
            out = ag.get_action(obs, training=training)
        ev = project(g, out)
    except Exception as ex:
        ev = project(g, None, _exc(ex))
    return trace(alg, f"training={training}", variant or g["mode"], "vector", [g], [ev])


def run_ddpg_ou(zoo, alg, g, *, seed):
    """Ornstein-Uhlenbeck noise with the library's own draws (large scale): only the bounds are demanded."""
    from agilerl.algorithms.ddpg import DDPG
    from agilerl.algorithms.td3 import TD3

    cls = {"DDPG": DDPG, "TD3": TD3}[alg]
    sp = space_of(g)
    B = len(g["rows"])

    def build():
        ag = zoo.construct(cls, OBS_SPACES["vector"](), sp, net_config=net_config(output_activation=ACT_OF_MODE[g["mode"]]),
                           share_encoders=True, O_U_noise=True, vect_noise_dim=B, expl_noise=30.0)
        ag._stub = Stub()
        ag.actor.head_net.forward = ag._stub
        return ag

    ag = zoo.get((alg, "ou", tuple(g["lo"]), tuple(g["hi"]), g["mode"], B), build)
    np.random.seed(seed)
    ag._stub.t = torch.tensor([[v / SC for v in r["x"]] for r in g["rows"]], dtype=torch.float32)
    try:
        out = ag.get_action(make_obs("vector", B, g["single"]), training=True)
        ev = project(g, out)
    except Exception as ex:
        ev = project(g, None, _exc(ex))
    return trace(alg, "training=True", "ou-noise", "vector", [g], [ev], {"seed": seed})


# =================================================================================== MADDPG / MATD3
AGENT_IDS = ["agent_0", "other_0"]


def _ma_obs(B, single):
    return {"agent_0": np.zeros((3,) if single else (B, 3), np.float32),
            "other_0": np.zeros((2,) if single else (B, 2), np.float32)}


def _ma_infos(groups, single, discrete, with_mask):
    infos = {}
    any_ed = any(r["envdef"] for g in groups for r in g["rows"])
    for aid, g in zip(AGENT_IDS, groups):
        info = {}
        if discrete and with_mask and not (with_mask == "sparse" and all_ones(g["rows"])):
            # with_mask == "sparse": an agent for which every action is legal hands over no mask (an empty info dictionary)
            info["action_mask"] = mask_arg(g["rows"], single)
        if any_ed:
            if discrete:
                ed = np.array([float(r["envdef"][0]) if r["envdef"] else np.nan for r in g["rows"]])
                info["env_defined_actions"] = (None if np.isnan(ed[0]) else int(ed[0])) if single else ed
            else:
                D = len(g["lo"])
                ed = np.array([[v / SC for v in r["envdef"]] if r["envdef"] else [np.nan] * D for r in g["rows"]])
                info["env_defined_actions"] = (None if np.isnan(ed[0, 0]) else ed[0]) if single else ed
        infos[aid] = info
    return infos


def run_ma_disc(zoo, alg, groups, *, training, single=False, variant="", with_mask=True):
    from agilerl.algorithms.maddpg import MADDPG
    from agilerl.algorithms.matd3 import MATD3

    cls = {"MADDPG": MADDPG, "MATD3": MATD3}[alg]
    ns = tuple(g["sizes"][0] for g in groups)
    B = len(groups[0]["rows"])

    def build():
        ag = cls([spaces.Box(-1, 1, (3,), np.float32), spaces.Box(-1, 1, (2,), np.float32)],
                 [spaces.Discrete(n) for n in ns], AGENT_IDS, net_config=net_config(), O_U_noise=False,
                 vect_noise_dim=B)
        ag._stubs = []
        for ac in ag.actors:
            st = Stub()
            ac.head_net.forward = st
            ag._stubs.append(st)
        return ag

    ag = zoo.get((alg, "disc", ns, B), build)
    for st, g in zip(ag._stubs, groups):
        st.t = _t(g["rows"], LV_PROB)
    infos = _ma_infos(groups, single, True, with_mask)
    evs = []
    try:
        torch.manual_seed(zoo.seed + B)
        _, disc = ag.get_action(_ma_obs(B, single), training=training, infos=infos)
        for aid, g in zip(AGENT_IDS, groups):
            evs.append(project(g, disc[aid]))
    except Exception as ex:
        evs = [project(g, None, _exc(ex)) for g in groups]
    return trace(alg, f"training={training}", variant, "vector", groups, evs, {"masked": bool(with_mask)})


class NormalScript:
    """torch.normal(mean, std, out=...) replacement: scripted noise per agent, in call order."""

    def __init__(self, noises):
        self.noises = list(noises)
        self.i = 0

    def __call__(self, mean, std, *a, out=None, **k):
        nz = self.noises[self.i % len(self.noises)]
        self.i += 1
        if out is not None:
            out.copy_(nz.reshape(out.shape))
            return out
        return nz


def run_ma_cont(zoo, alg, groups, *, training, single=False, variant="", act="Tanh"):
    """act: output activation of the actors' heads; "Tanh" (default) and "Softsign" both map onto (-1, 1)"""
    from agilerl.algorithms.maddpg import MADDPG
    from agilerl.algorithms.matd3 import MATD3

    cls = {"MADDPG": MADDPG, "MATD3": MATD3}[alg]
    B = len(groups[0]["rows"])
    key = tuple((tuple(g["lo"]), tuple(g["hi"])) for g in groups)

    def build():
        ag = cls([spaces.Box(-1, 1, (3,), np.float32), spaces.Box(-1, 1, (2,), np.float32)],
                 [space_of(g) for g in groups], AGENT_IDS, net_config=(net_config() if act == "Tanh" else net_config(output_activation=act)),
                 O_U_noise=False, vect_noise_dim=B)
        ag._stubs = []
        for ac in ag.actors:
            assert ac.output_activation == act, ac.output_activation
            st = Stub()
            ac.head_net.forward = st
            ag._stubs.append(st)
        return ag

    ag = zoo.get((alg, "cont", key, B, act), build)
    for st, g in zip(ag._stubs, groups):
        st.t = torch.tensor([[v / SC for v in r["x"]] for r in g["rows"]], dtype=torch.float32)
    script = NormalScript([torch.tensor([[v / SC for v in r["noise"]] for r in g["rows"]], dtype=torch.float32)
                           for g in groups])
    infos = _ma_infos(groups, single, False, False)
    evs = []
    try:
        with mock.patch.object(torch, "normal", script):
            cont, _ = ag.get_action(_ma_obs(B, single), training=training, infos=infos if any(infos.values()) else None)
        for aid, g in zip(AGENT_IDS, groups):
            evs.append(project(g, cont[aid]))
    except Exception as ex:
        evs = [project(g, None, _exc(ex)) for g in groups]
    return trace(alg, f"training={training}", variant, "vector", groups, evs)


# =================================================================================== IPPO
IPPO_IDS = ["agent_0", "agent_1", "other_0"]


def run_ippo(zoo, groups, *, training, mask_form="list", variant=""):
    """IPPO with a homogeneous pair (agent_0, agent_1 share one actor) and a third agent.
    groups: three disc groups; groups[0] and groups[1] have the same size."""
    from agilerl.algorithms.ippo import IPPO

    ns = tuple(g["sizes"][0] for g in groups)
    B = len(groups[0]["rows"])

    def build():
        ag = IPPO([spaces.Box(-1, 1, (3,), np.float32)] * 2 + [spaces.Box(-1, 1, (2,), np.float32)],
                  [spaces.Discrete(n) for n in ns], IPPO_IDS, net_config=net_config())
        ag._stubs = []
        for ac in ag.actors:
            st = Stub()
            ac.head_net.wrapped.forward = st
            ag._stubs.append(st)
        assert len(ag._stubs) == 2, "expected agent_0/agent_1 to share an actor"
        return ag

    ag = zoo.get(("IPPO", ns), build)
    ag.set_training_mode(training)
    ag._stubs[0].t = torch.cat([_t(groups[0]["rows"], LV_LOGIT), _t(groups[1]["rows"], LV_LOGIT)], dim=0)
    ag._stubs[1].t = _t(groups[2]["rows"], LV_LOGIT)
    obs = {"agent_0": np.zeros((B, 3), np.float32), "agent_1": np.zeros((B, 3), np.float32),
           "other_0": np.zeros((B, 2), np.float32)}
    infos = {}
    any_ed = any(r["envdef"] for g in groups for r in g["rows"])
    for aid, g in zip(IPPO_IDS, groups):
        m = np.array([r["mask"] for r in g["rows"]], dtype=np.int64)
        info = {"action_mask": m.tolist() if mask_form == "list" else m}
        if any_ed:
            info["env_defined_actions"] = np.array([float(r["envdef"][0]) if r["envdef"] else np.nan for r in g["rows"]])
        infos[aid] = info
    if variant.endswith("+infos-reversed"):
        # the info dictionary in another key order than agent_ids (it is keyed by agent: the order carries no meaning)
        infos = {k: infos[k] for k in reversed(list(infos))}
    evs = []
    try:
        torch.manual_seed(zoo.seed + B)
        act = ag.get_action(obs, infos=infos)[0]
        for aid, g in zip(IPPO_IDS, groups):
            evs.append(project(g, act[aid]))
    except Exception as ex:
        evs = [project(g, None, _exc(ex)) for g in groups]
    return trace("IPPO", f"training={training}", variant or f"mask-{mask_form}", "vector", groups, evs)


def run_ippo_cont(zoo, groups, *, training, variant="clip"):
    """IPPO with Box action spaces: a homogeneous pair (agent_0, agent_1) with one pair of bounds and a third agent with other
    bounds (and another dimension); groups = [g(agent_0), g(agent_1), g(other_0)], mode "none" (un-squashed Gaussian heads)."""
    from agilerl.algorithms.ippo import IPPO

    key = tuple((tuple(g["lo"]), tuple(g["hi"])) for g in groups)
    B = len(groups[0]["rows"])

    def build():
        ag = IPPO([spaces.Box(-1, 1, (3,), np.float32)] * 2 + [spaces.Box(-1, 1, (2,), np.float32)],
                  [space_of(g) for g in groups], IPPO_IDS, net_config=net_config())
        ag._stubs = []
        for ac in ag.actors:
            st = Stub()
            ac.head_net.wrapped.forward = st
            ag._stubs.append(st)
        assert len(ag._stubs) == 2, "expected agent_0/agent_1 to share an actor"
        return ag

    ag = zoo.get(("IPPO", "cont", key), build)
    ag.set_training_mode(training)
    mu = lambda g: torch.tensor([[v / SC for v in r["x"]] for r in g["rows"]], dtype=torch.float32)
    ag._stubs[0].t = torch.cat([mu(groups[0]), mu(groups[1])], dim=0)
    ag._stubs[1].t = mu(groups[2])
    for ac in ag.actors:                       # a tiny standard deviation: the sampled action is the scripted mean (up to 1e-6)
        ac.head_net.log_std.data.fill_(-16.0)
    obs = {"agent_0": np.zeros((B, 3), np.float32), "agent_1": np.zeros((B, 3), np.float32), "other_0": np.zeros((B, 2), np.float32)}
    evs = []
    try:
        torch.manual_seed(zoo.seed + B)
        act = ag.get_action(obs)[0]
        for aid, g in zip(IPPO_IDS, groups):
            evs.append(project(g, act[aid]))
    except Exception as ex:
        evs = [project(g, None, _exc(ex)) for g in groups]
    return trace("IPPO", f"training={training}", variant, "vector", groups, evs)


def check_f64_bounds(seed: int):
    """DDPG / TD3 on a Box(dtype=float64) whose bounds float32 cannot represent (0.1, 0.3, 0.7, 0.9): with large exploration noise
    most actions saturate; every returned action must lie inside the space (gymnasium's own `contains`, on the action as returned).
    Returns (violations, rows checked)."""
    from agilerl.algorithms.ddpg import DDPG
    from agilerl.algorithms.td3 import TD3

    sp = spaces.Box(np.array([-0.1, 0.3, -0.7]), np.array([0.1, 0.7, 0.9]), dtype=np.float64)
    osp = spaces.Box(-1, 1, (4,), np.float32)
    out, n = [], 0
    for name, cls in (("DDPG", DDPG), ("TD3", TD3)):
        torch.manual_seed(seed + 5)
        try:
            ag = cls(osp, sp, net_config=net_config(), expl_noise=0.5, O_U_noise=False, share_encoders=True)
        except AssertionError:
            ag = cls(osp, sp, net_config=net_config(), expl_noise=0.5, O_U_noise=False, share_encoders=False)
        for training in (True, False):
            ag.set_training_mode(training)
            bad = []
            for k in range(12):
                torch.manual_seed(seed * 100 + k)
                np.random.seed(seed * 100 + k)
                obs = np.random.rand(8, 4).astype(np.float32)
                a = ag.get_action(obs)
                a = a[0] if isinstance(a, tuple) else a
                for row in np.asarray(a).reshape(8, -1):
                    n += 1
                    if not sp.contains(np.asarray(row, dtype=np.float64)):
                        bad.append([float(x) for x in row])
            if bad:
                out.append({"sig": f"actionsel:{name}:training={training}:f64-bounds:vector:Box3:batched:Contains",
                            "what": f"{name}.get_action (training={training}) on Box(low=[-0.1, 0.3, -0.7], high=[0.1, 0.7, 0.9], dtype=float64): "
                                    f"{len(bad)} returned actions are not contained in the action space, e.g. {bad[0]}",
                            "replay": {"kind": "f64-bounds", "alg": name, "training": training, "seed": seed}})
    return out, n


# =================================================================================== grid handling
class Grid:
    """TLC's dumped cases, indexed by what they can be replayed on."""

    def __init__(self, cases):
        self.disc = {}       # (n, explore, single) -> [row]
        self.md = {}         # explore -> [row]          MultiDiscrete([2,3])
        self.mb = {}         # explore -> [row]          MultiBinary(3)
        self.cont = {}       # (lo, hi, mode, req, single) -> [row]
        self.batch2 = []     # disc groups with two rows
        self.ma_disc = []    # [g1, g2]
        self.ma_cont = []
        for c in cases:
            if len(c) == 2:
                (self.ma_disc if c[0]["kind"] == "disc" else self.ma_cont).append(c)
                continue
            g = c[0]
            if g["kind"] == "disc" and len(g["rows"]) == 2:
                self.batch2.append(g)
            elif g["kind"] == "disc" and len(g["sizes"]) == 1:
                r = g["rows"][0]
                self.disc.setdefault((g["sizes"][0], r["explore"], g["single"]), []).append(r)
            elif g["kind"] == "disc":
                self.md.setdefault(g["rows"][0]["explore"], []).append(g["rows"][0])
            elif g["kind"] == "bits":
                self.mb.setdefault(g["rows"][0]["explore"], []).append(g["rows"][0])
            else:
                self.cont.setdefault((tuple(g["lo"]), tuple(g["hi"]), g["mode"], g["req"], g["single"]), []).append(g["rows"][0])


def chunks(rows, size):
    for i in range(0, len(rows), size):
        yield rows[i:i + size]


def rerun(cfg, seed=0):
    """Re-execute the call a recorded trace describes (./check C14 --replay)."""
    zoo = Zoo(seed)
    alg, mode, variant, groups = cfg["alg"], cfg["mode"], cfg["variant"], copy.deepcopy(cfg["call"])
    g = groups[0]
    single = g["single"]
    training = mode.endswith("True")
    if alg in ("DQN", "CQN", "RainbowDQN"):
        explore = g["rows"][0]["explore"]
        eps = float(variant.split("=")[1]) if variant.startswith("eps=") else None
        return run_q(zoo, alg, cfg["n"], g["rows"], explore, single=single, obs_kind=cfg["obs"],
                     variant=variant if variant == "zero-draw" else "", eps=eps, training=training,
                     pass_mask=cfg.get("masked", True))
    if alg in ("NeuralUCB", "NeuralTS"):
        return run_bandit(zoo, alg, cfg["n"], g["rows"][0], gamma=cfg["gamma"],
                          mask_shape=variant if variant in ("flat", "column") else "flat")
    if alg == "PPO":
        if g["kind"] == "cont":
            return run_ppo_cont(zoo, g, training=training, squash=variant.startswith("squash"), evolved=variant.endswith("+evolved"))
        return run_ppo_disc(zoo, g, training=training, variant=variant, lv=LV_LOGIT_X if variant == "logits-1e9" else None,
                            pass_mask=cfg.get("masked", True))
    if alg in ("DDPG", "TD3"):
        if variant == "ou-noise":
            return run_ddpg_ou(zoo, alg, g, seed=cfg.get("seed", seed))
        return run_ddpg(zoo, alg, g, training=training)
    if alg == "IPPO" and g["kind"] == "cont":
        return run_ippo_cont(zoo, groups, training=training, variant=variant or "clip")
    if alg in ("MADDPG", "MATD3"):
        if g["kind"] == "cont":
            return run_ma_cont(zoo, alg, groups, training=training, single=single, variant=variant,
                               act=("Softsign" if variant.endswith("+softsign") else "Tanh"))
        return run_ma_disc(zoo, alg, groups, training=training, single=single, variant=variant,
                           with_mask=("sparse" if variant.endswith("+sparse") else cfg.get("masked", True)))
    if alg == "IPPO":
        return run_ippo(zoo, groups, training=training, mask_form=variant.split("+")[0].split("-")[1] if variant.startswith("mask-") else "list",
                        variant=variant if variant.endswith("+infos-reversed") else "")
    raise ValueError(f"cannot replay {alg}")
