"""Driver for C10: feed a stream of raw steps into the real MultiStepReplayBuffer exactly as
train_off_policy does (companion ReplayBuffer / PrioritizedReplayBuffer receives what add() returns),
snapshot both storages after every add.

Varied besides (n, envs, capacity, discount, stream): observation kind (incl. rank-0 and half-integer encodings of
vfw/drive/ring.py), the buffers' dtype option, reward unit (integers or quarters, negative values), the name of the
done field ("done" | "terminated" | "termination": detected lazily by the buffer) and its dtype (float | bool), and for one
environment how the transition is built (batched (1,..) arrays, or unbatched values + unsqueeze(0) as train_off_policy does
for a non-vectorised environment)."""
from __future__ import annotations

import numpy as np
import torch

from .. import codec
from ..codec import F_ACT, F_NOBS, F_OBS
from . import ring

ENVS = 8     # row id = t * ENVS + e   (e = 1..E)


TOL_UNIT = 0.0
NOT_A_MULTIPLE = 10 ** 9      # reported as `ret` when a stored return is not a multiple of the unit


def rid(t, e):
    return t * ENVS + e


def make_step(kind, t, E, rew, done, rden=1, done_key="done", done_bool=False, unbatched=False):
    """rew: integer numerators, the reward fed to the buffer is rew / rden."""
    from agilerl.components.data import Transition

    ids = [rid(t, e) for e in range(1, E + 1)]
    if unbatched:
        assert E == 1
        tr = Transition(obs=ring.make_obs(kind, ids[0], F_OBS), action=np.array(ring.fval(kind, ids[0], F_ACT), dtype=np.float32),
                        reward=float(rew[0]) / rden, next_obs=ring.make_obs(kind, ids[0], F_NOBS),
                        done=np.array([done[0]], dtype=np.float32))
        tr = tr.unsqueeze(0)
    else:
        obs = ring.stack_obs(kind, ids, F_OBS)
        nobs = ring.stack_obs(kind, ids, F_NOBS)
        action = np.array([[ring.fval(kind, i, F_ACT)] for i in ids], dtype=np.float32)
        tr = Transition(obs=obs, action=action, reward=np.array(rew, dtype=np.float32) / np.float32(rden),
                        next_obs=nobs, done=np.array(done, dtype=np.float32))
    td = tr.to_tensordict()
    td.batch_size = [E]
    if done_bool:
        td.set("done", td["done"].bool())
    if done_key != "done":
        td.rename_key_("done", done_key)
    return td


def dec_row(kind, row, scale, done_key="done"):
    o = ring.decode_obs(kind, row["obs"], F_OBS)
    a = ring.decode_val(kind, row["action"], F_ACT)
    nx = ring.decode_obs(kind, row["next_obs"], F_NOBS)
    ok = o is not None and o == a and nx is not None
    r = float(np.asarray(row["reward"]).reshape(-1)[0]) * scale
    d = float(np.asarray(row[done_key]).reshape(-1)[0])
    return {"t": (o or 0) // ENVS, "e": (o or 0) % ENVS, "last": (nx or 0) // ENVS,
            "laste": (nx or 0) % ENVS, "ret": int(round(r)) if abs(r - round(r)) <= TOL_UNIT else NOT_A_MULTIPLE,
            "done": d != 0.0, "ok": bool(ok and (nx % ENVS == o % ENVS) and d in (0.0, 1.0))}


DONE_KEYS = ("done", "done", "terminated", "termination")


def run(n, E, N, gexp, kind, steps, per=False, sample_every=0, seed=0, grat=None, rden=1, opts=None):
    """steps: list of (rew[E], done[E]) (rew: integer numerators over rden). Returns trace dict for NStep_Trace.
    opts (optional, otherwise derived from seed): done_key, done_bool, unbatched."""
    from agilerl.components.replay_buffer import (MultiStepReplayBuffer, PrioritizedReplayBuffer,
                                                   ReplayBuffer)
    from agilerl.components.sampler import Sampler

    torch.manual_seed(seed)
    # discount: 1/2^gexp (every float operation exact) or the rational grat = (num, den), e.g. 99/100 (float32 returns are
    # then identified with the nearest multiple of 1/den^(n-1) when they are within 2% of that unit); (0, 1): gamma = 0
    gnum, gden = grat if grat else (1, 2 ** gexp)
    gamma = gnum / gden
    exact = grat is None or gden == 1
    assert exact or rden == 1
    # the `dtype` option of the buffers (documented, float32 by default) varies with the seed: the stored returns are float32 sums
    # of float32 rewards whatever it is
    dt = [torch.float32, torch.float32, torch.float16, torch.bfloat16][seed % 4]
    o = {"done_key": DONE_KEYS[(seed // 2) % 4], "done_bool": (seed // 2) % 4 >= 2 and seed % 3 == 0, "unbatched": E == 1 and seed % 2 == 1}
    o.update(opts or {})
    dk = o["done_key"]
    nbuf = MultiStepReplayBuffer(max_size=N, n_step=n, gamma=gamma, dtype=dt)
    buf1 = PrioritizedReplayBuffer(max_size=N, alpha=0.6) if per else ReplayBuffer(max_size=N)
    s1, sn = Sampler(memory=buf1), Sampler(memory=nbuf)
    scale = gden ** (n - 1) * rden
    global TOL_UNIT
    TOL_UNIT = 0.0 if exact else 0.02
    ev = []
    for t, (rew, done) in enumerate(steps, start=1):
        e = {"op": "add", "exc": "", "rew": [int(x) for x in rew], "done": [bool(x) for x in done],
             "ret1": 0, "nrows": [], "rows1": []}
        try:
            one = nbuf.add(make_step(kind, t, E, rew, done, rden=rden, done_key=dk, done_bool=o["done_bool"], unbatched=o["unbatched"]))
            if one is not None:
                buf1.add(one)
                oid = ring.decode_obs(kind, one[0]["obs"], F_OBS)
                e["ret1"] = (oid or 0) // ENVS
            ln, l1 = len(nbuf), len(buf1)
            e["nrows"] = [dec_row(kind, nbuf.storage[i], scale, dk) for i in range(ln)]
            rows1 = []
            for i in range(l1):
                r = dec_row(kind, buf1.storage[i], 1, dk)
                rows1.append({"t": r["t"], "e": r["e"], "ok": r["ok"] and r["last"] == r["t"]})
            e["rows1"] = rows1
        except Exception as ex:
            e["exc"] = f"{type(ex).__name__}: {ex}"[:200]
            ev.append(e)
            break
        ev.append(e)
        if sample_every and t % sample_every == 0 and len(buf1) >= 1:
            B = min(len(buf1), 3)
            se = {"op": "sample", "exc": "", "pairs": []}
            try:
                if per:
                    b1 = s1.sample(B, 0.4)
                else:
                    b1 = s1.sample(B, return_idx=True)
                idxs = b1["idxs"]
                bn = sn.sample(idxs)
                idl = idxs.reshape(-1).tolist()
                for j in range(len(idl)):
                    r1 = dec_row(kind, b1[j], 1, dk)
                    rn = dec_row(kind, bn[j] if bn.batch_size and len(bn.batch_size) == 1 else bn[j][0], scale, dk)
                    se["pairs"].append({"t1": r1["t"], "e1": r1["e"], "tn": rn["t"], "en": rn["e"]})
            except Exception as ex:
                se["exc"] = f"{type(ex).__name__}: {ex}"[:200]
                ev.append(se)
                break
            ev.append(se)
    return {"cfg": {"n": n, "E": E, "N": N, "gexp": gexp, "gnum": gnum, "gden": gden, "rden": rden, "kind": kind, "per": per,
                    "done_key": dk, "done_bool": bool(o["done_bool"]), "unbatched": bool(o["unbatched"]), "dtype": str(dt)}, "ev": ev}
