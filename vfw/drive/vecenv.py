"""Drivers for C12/C13: the real AsyncPettingZooVecEnv over scripted PettingZoo ParallelEnvs.

ScriptedEnv semantics (mirrored by specs/VecData.tla):
  * agents agent_0..agent_{A-1}; episode length L; agent a leaves early after step leave[a] (< L);
    at the last step every remaining agent finishes -- by termination ("term"), truncation ("trunc") or
    agent_0 terminated / others truncated ("mixed")
  * observation of agent a after t steps of episode ep in environment idx: every element equals
    obs_id(idx, ep, t, a) (+ member offset for dict/tuple members)
  * reward of agent a at a step = 10 * action_a + t   (t = step number inside the episode, 1-based)
  * info[a] = {"tick": total number of steps this environment has executed}
Fault injection (C13): before executing its k-th command (client reset / step / call / set_attr; the
reset a worker performs itself after an episode end is not a command) the environment may raise a
given exception type, sleep, or SIGKILL its own process.
"""
from __future__ import annotations

import json
import multiprocessing as mp
import os
import signal
import sys
import time
import traceback

import numpy as np
from gymnasium import spaces
from pettingzoo import ParallelEnv

EXC = {"ValueError": ValueError, "KeyError": KeyError, "RuntimeError": RuntimeError, "ZeroDivisionError": ZeroDivisionError}


def obs_id(idx, ep, t, a):
    return ((idx * 8 + ep) * 8 + t) * 4 + a          # < 2**15 for idx < 16, ep < 8, t < 8


def obs_space(kind, dtype):
    if kind == "vector":
        return spaces.Box(0, 2 ** 16 - 1, (3,), dtype=dtype)
    if kind == "image":
        return spaces.Box(0, 2 ** 16 - 1, (1, 3, 3), dtype=dtype)
    if kind == "dict":
        return spaces.Dict({"vec": spaces.Box(0, 2 ** 16 - 1, (2,), dtype=dtype), "img": spaces.Box(0, 2 ** 16 - 1, (1, 2, 2), dtype=dtype)})
    if kind == "tuple":
        return spaces.Tuple((spaces.Box(0, 2 ** 16 - 1, (2,), dtype=dtype), spaces.Box(0, 2 ** 16 - 1, (1, 2, 2), dtype=dtype)))
    raise ValueError(kind)


POS = 32        # element j (C order) of an observation array holds v * POS + j, so element order is observable


def _arr(shape, v, dtype, noncontig):
    n = int(np.prod(shape))
    a = (np.arange(n, dtype=np.int64) + int(v) * POS).astype(dtype).reshape(shape)
    if noncontig:
        # same logical content, but not C-contiguous in memory (what e.g. np.transpose(frame, (2, 0, 1)) returns)
        if a.ndim >= 2:
            perm = tuple(reversed(range(a.ndim)))
            a = np.ascontiguousarray(a.transpose(perm)).transpose(perm)
        else:
            a = np.repeat(a, 2)[::2]
    return a


def make_obs(kind, dtype, v, noncontig=False):
    if kind == "vector":
        return _arr((3,), v, dtype, noncontig)
    if kind == "image":
        return _arr((1, 3, 3), v, dtype, noncontig)
    if kind == "dict":
        return {"vec": _arr((2,), v, dtype, noncontig), "img": _arr((1, 2, 2), v + 1, dtype, noncontig)}
    return (_arr((2,), v, dtype, noncontig), _arr((1, 2, 2), v + 1, dtype, noncontig))


def decode_obs(kind, o):
    """-> id or None (None when the elements are not v*POS + position / members disagree)."""
    def uni(a):
        a = np.asarray(a).astype(np.float64).reshape(-1)
        if a.size == 0 or a[0] != int(a[0]):
            return None
        v = int(a[0]) // POS
        if not np.array_equal(a, np.arange(a.size) + v * POS):
            return None
        return v
    if kind in ("vector", "image"):
        return uni(o)
    if kind == "dict":
        p, q = uni(o["vec"]), uni(o["img"])
    else:
        p, q = uni(o[0]), uni(o[1])
    if p is None or q is None or q != p + 1:
        return None
    return p


class ScriptedEnv(ParallelEnv):
    metadata = {"name": "scripted_v0", "render_modes": []}
    render_mode = None

    def __init__(self, idx=0, n_agents=2, L=2, leave=None, end="term", kind="vector", dtype="float32",
                 continuous=False, faults=None):
        self.idx, self.L, self.end, self.kind = idx, L, end, kind
        self.dtype = np.dtype(dtype)
        self.possible_agents = [f"agent_{a}" for a in range(n_agents)]
        self.leave = dict(leave or {})                      # agent index -> step after which it is gone
        self.continuous = continuous
        self.faults = {int(k): v for k, v in (faults or {}).items()}
        self.agents = self.possible_agents[:]       # episode 0 is running from construction (step before reset is legal here)
        self.ep, self.t, self.tick, self.ncmd = 0, 0, 0, 0
        self._just_ended = False
        self.knob = 0

    # -- spaces
    def observation_space(self, agent):
        return obs_space(self.kind, self.dtype)

    def action_space(self, agent):
        return spaces.Box(0.0, 4.0, (1,), dtype=np.float32) if self.continuous else spaces.Discrete(4)

    # -- fault injection
    def _command(self):
        self.ncmd += 1
        f = self.faults.get(self.ncmd)
        if not f:
            return
        if f[0] == "raise":
            # an exception whose report is larger than a pipe buffer ("big": 300 kB message) or takes the worker's queue feeder
            # thread a noticeable time to deliver ("huge": 30 MB)
            pad = {"big": 300000, "huge": 30000000}.get(f[2] if len(f) > 2 else "", 0)
            raise EXC[f[1]](f"injected fault in env {self.idx} at command {self.ncmd}" + ("; " + "x" * pad if pad else ""))
        if f[0] == "sleep":
            time.sleep(float(f[1]))
        if f[0] == "kill":
            os.kill(os.getpid(), signal.SIGKILL)

    def __setattr__(self, k, v):
        if k == "knob" and "ncmd" in self.__dict__ and "knob" in self.__dict__:
            self._command()
        object.__setattr__(self, k, v)

    def probe(self, x=0):
        self._command()
        return (self.idx, self.ep, self.t, x)

    # -- episode logic
    def _obs(self, agents):
        return {ag: make_obs(self.kind, self.dtype, obs_id(self.idx, self.ep, self.t, int(ag.split("_")[1])),
                             noncontig=bool((self.idx + self.t) % 2)) for ag in agents}

    def reset(self, seed=None, options=None):
        if self._just_ended:
            self._just_ended = False            # the worker's own reset after an episode end: not a command
        else:
            self._command()
        self.ep += 1
        self.t = 0
        self.agents = self.possible_agents[:]
        sd = -1 if seed is None else int(seed)              # the seed this environment's reset() received
        return self._obs(self.agents), {ag: {"tick": self.tick, "seed": sd} for ag in self.agents}

    def step(self, actions):
        self._command()
        self._just_ended = False
        self.t += 1
        self.tick += 1
        present = self.agents[:]
        last = self.t >= self.L
        obs = self._obs(present)
        rew, term, trunc, info = {}, {}, {}, {}
        for ag in present:
            a = int(ag.split("_")[1])
            act = actions[ag]
            act = float(np.asarray(act).reshape(-1)[0])
            if self.continuous:
                act -= 0.5                                  # continuous actions are sent as v + 0.5 (a truncated action shows)
            rew[ag] = 10.0 * act + self.t + 0.5          # never an integer (a reward array of integer dtype would truncate it)
            leaving = (not last) and self.leave.get(a, 10 ** 9) <= self.t
            if last:
                is_term = self.end == "term" or (self.end == "mixed" and a == 0)
                term[ag], trunc[ag] = bool(is_term), bool(not is_term)
            else:
                term[ag], trunc[ag] = bool(leaving), False
            info[ag] = {"tick": self.tick}
            # two more info keys that only some sub-environments report at some steps (the first one by every sub-environment whose
            # index + tick is even, the second one by sub-environment 0 only)
            if (self.idx + self.tick) % 2 == 0:
                info[ag]["aux"] = self.tick
                if self.idx == 0:
                    info[ag]["aux2"] = self.tick
        self.agents = [] if last else [ag for ag in present if not term[ag]]
        if last:
            self._just_ended = True
        return obs, rew, term, trunc, info

    def close(self):
        pass


def env_fn(**kw):
    def f():
        return ScriptedEnv(**kw)
    return f


# =============================================================================================== C13
def _norm_exc(ex):
    n = type(ex).__name__
    if n in ("BrokenPipeError", "ConnectionResetError", "ConnectionRefusedError", "ConnectionAbortedError"):
        return "PipeError"
    if n == "TimeoutError" or isinstance(ex, mp.TimeoutError):
        return "TimeoutError"
    return n


def _scenario_child(scn, path):
    """Runs in a forked child: build the vec env, execute the public calls, log one line per event."""
    os.setsid()
    out = open(path, "w", buffering=1)

    def log(**kw):
        out.write(json.dumps(kw) + "\n")
        out.flush()
        os.fsync(out.fileno())

    import warnings
    warnings.filterwarnings("ignore")
    import gymnasium
    gymnasium.logger.min_level = 50
    from agilerl.vector.pz_async_vec_env import AsyncPettingZooVecEnv

    NW = scn["NW"]
    fns = [env_fn(idx=i, n_agents=scn.get("agents", 2), L=scn["L"][i], kind=scn.get("kind", "vector"),
                  faults=scn.get("faults", {}).get(str(i), {})) for i in range(NW)]
    env = AsyncPettingZooVecEnv(fns, copy=scn.get("copy", True))
    log(ev="pids", pids=[p.pid for p in env.processes])
    tmo = {"none": None, "finite": scn.get("timeout", 0.15)}
    agents = env.agents
    try:
        for step in scn["calls"]:
            c = step["call"]
            if c == "kill":                                   # parent-side kill of an idle worker
                p = env.processes[step["w"]]
                if p.is_alive():
                    try:
                        os.kill(p.pid, signal.SIGKILL)
                    except ProcessLookupError:
                        pass
                    else:
                        p.join(2.0)
                        log(ev="kill", w=step["w"] + 1)
                # a worker that already exited (e.g. it raised) cannot be killed again: no event
                continue
            if c == "settle":                                 # let workers finish what they have been sent
                time.sleep(step.get("s", 0.1))
                continue
            to = step.get("to", "none")
            log(ev="begin", call=c, to=to)
            kind, typ = "ok", ""
            try:
                if c == "reset_async":
                    env.reset_async(seed=step.get("seed"))
                elif c == "reset_wait":
                    env.reset_wait(timeout=tmo[to])
                elif c == "step_async":
                    env.step_async([[1 for _ in agents] for _ in range(NW)])
                elif c == "step_wait":
                    env.step_wait(timeout=tmo[to])
                elif c == "call_async":
                    env.call_async("probe", 7)
                elif c == "call_wait":
                    env.call_wait(timeout=tmo[to])
                elif c == "set_attr":
                    env.set_attr("knob", 3)
                elif c == "close":
                    if to == "terminate":
                        env.close(terminate=True)
                    else:
                        env.close(timeout=tmo[to])
                else:
                    raise AssertionError(c)
            except BaseException as ex:          # noqa: the outcome is what we record
                kind, typ = "exc", _norm_exc(ex)
            time.sleep(0.02)
            log(ev="end", call=c, to=to, kind=kind, typ=typ, pstate=env._state.value, closed=bool(env.closed),
                alive=[bool(p.is_alive()) for p in env.processes])
        log(ev="done")
    except BaseException:
        log(ev="harness-error", text=traceback.format_exc()[-800:])
    finally:
        out.close()
        os._exit(0)


def run_scenario(scn, workdir, watchdog=8.0):
    """Fork a child that runs the scenario; returns the list of logged events. A call that does not
    return within the watchdog is reported as kind='hang' (the child and all its workers are killed)."""
    path = os.path.join(workdir, f"scn-{os.getpid()}-{time.time_ns()}.ndjson")
    pid = os.fork()
    if pid == 0:
        try:
            _scenario_child(scn, path)
        finally:
            os._exit(0)
    t0 = time.time()
    done = False
    while time.time() - t0 < watchdog:
        r, _ = os.waitpid(pid, os.WNOHANG)
        if r != 0:
            done = True
            break
        time.sleep(0.02)
    if not done:
        try:
            os.killpg(pid, signal.SIGKILL)
        except ProcessLookupError:
            pass
        os.waitpid(pid, 0)
    evs = []
    try:
        with open(path) as f:
            for ln in f:
                try:
                    evs.append(json.loads(ln))
                except Exception:
                    pass
        os.unlink(path)
    except FileNotFoundError:
        pass
    # leftover workers (close raised / was never reached): kill them, remember who was still alive
    pids = next((e["pids"] for e in evs if e.get("ev") == "pids"), [])
    leftover = []
    for k, p in enumerate(pids):
        try:
            os.kill(p, 0)
            leftover.append(k + 1)
            os.kill(p, signal.SIGKILL)
        except (ProcessLookupError, PermissionError):
            pass
    try:
        os.killpg(pid, signal.SIGKILL)
    except (ProcessLookupError, PermissionError):
        pass
    return evs, (not done), leftover


def to_trace(scn, evs, hung):
    """Public-call events for VecEnv_Trace: one event per finished (or hung) call, kills in between."""
    out = []
    pending = None
    for e in evs:
        if e.get("ev") == "begin":
            pending = e
        elif e.get("ev") == "end":
            out.append({"ev": "call", "call": e["call"], "to": e["to"], "kind": e["kind"], "typ": e["typ"],
                        "pstate": e["pstate"], "closed": e["closed"], "alive": e["alive"]})
            pending = None
        elif e.get("ev") == "kill":
            out.append({"ev": "kill", "w": e["w"]})
        elif e.get("ev") == "harness-error":
            raise RuntimeError("scenario harness error: " + e["text"])
    if hung and pending is not None:
        out.append({"ev": "call", "call": pending["call"], "to": pending["to"], "kind": "hang", "typ": "",
                    "pstate": "?", "closed": False, "alive": []})
    faults = []
    for w, fs in scn.get("faults", {}).items():
        for k, f in fs.items():
            if f[0] in ("raise", "kill"):
                faults.append({"w": int(w) + 1, "n": int(k), "kind": f[0], "typ": f[1] if f[0] == "raise" else ""})
    return {"cfg": {"NW": scn["NW"], "L": scn["L"], "faults": faults}, "ev": out}


# =============================================================================================== C12
def _shape_ok(kind, dtype, obs, nw):
    sp = obs_space(kind, np.dtype(dtype))

    def ok(arr, sub):
        arr = np.asarray(arr)
        return arr.shape == (nw, *sub.shape) and arr.dtype == sub.dtype
    try:
        if kind in ("vector", "image"):
            return ok(obs, sp)
        if kind == "dict":
            return all(ok(obs[k], sp.spaces[k]) for k in sp.spaces)
        return all(ok(obs[j], sp.spaces[j]) for j in range(len(sp.spaces)))
    except Exception:
        return False


def _row(kind, obs, i):
    if kind in ("vector", "image"):
        return obs[i]
    if kind == "dict":
        return {k: v[i] for k, v in obs.items()}
    return tuple(v[i] for v in obs)


def _intval(x):
    x = float(np.asarray(x).reshape(-1)[0])
    return int(x) if x == int(x) else -999


def _reorder(d, k):
    """The same action dictionary with another insertion order (a dictionary is keyed by agent, its order carries no meaning):
    rotated by the step number, reversed on every other step."""
    keys = list(d)
    if not keys:
        return d
    r = k % len(keys)
    keys = keys[r:] + keys[:r]
    if k % 2:
        keys.reverse()
    return {a: d[a] for a in keys}


def run_data(cfg, ops, seed=0):
    """cfg: NW, A, L, leave, endk, kind, dtype, copy, continuous, mode; ops: ("reset",) | ("step", actions[NW][A]).
    Returns a trace for VecData_Trace."""
    import warnings
    warnings.filterwarnings("ignore")
    import gymnasium
    gymnasium.logger.min_level = 50
    NW, A, kind, dtype = cfg["NW"], cfg["A"], cfg["kind"], cfg["dtype"]
    agents = [f"agent_{a}" for a in range(A)]
    mk = [env_fn(idx=i, n_agents=A, L=cfg["L"][i], leave={a: cfg["leave"][i][a] for a in range(A) if cfg["leave"][i][a]},
                 end=cfg["endk"][i], kind=kind, dtype=dtype, continuous=cfg.get("continuous", False)) for i in range(NW)]
    mode = cfg["mode"]
    env = None
    ev = []
    handed = []          # (obs dict, decoded ids) returned earlier
    try:
        if mode == "vec":
            from agilerl.vector.pz_async_vec_env import AsyncPettingZooVecEnv
            env = AsyncPettingZooVecEnv(mk, copy=cfg.get("copy", True))
        elif mode == "wrapper":
            from agilerl.wrappers.pettingzoo_wrappers import PettingZooAutoResetParallelWrapper
            env = PettingZooAutoResetParallelWrapper(mk[0]())
        else:
            env = mk[0]()
        nstep = 0
        for op in ops:
            e = {"op": op[0], "exc": "", "shape_ok": True, "prev_ok": True, "out": [], "seeds": []}
            if op[0] == "step":
                e["actions"] = op[1]
            try:
                if mode == "vec":
                    if op[0] == "reset":
                        obs, info = env.reset(seed=seed)
                        rew = term = trunc = None
                    else:
                        acts = {ag: (np.array([[float(op[1][i][a]) + 0.5] for i in range(NW)], dtype=np.float32) if cfg.get("continuous")
                                     else np.array([op[1][i][a] for i in range(NW)])) for a, ag in enumerate(agents)}
                        nstep += 1
                        obs, rew, term, trunc, info = env.step(_reorder(acts, nstep))
                    obsd = {ag: obs[ag] for ag in agents}
                    e["shape_ok"] = all(_shape_ok(kind, dtype, obsd[ag], NW) for ag in agents)
                    out = []
                    for i in range(NW):
                        rowl = []
                        for a, ag in enumerate(agents):
                            oid = decode_obs(kind, _row(kind, obsd[ag], i))
                            tick = -1
                            try:
                                if ag in info and "tick" in info[ag] and bool(info[ag]["_tick"][i]):
                                    tick = int(info[ag]["tick"][i])
                            except Exception:
                                tick = -2
                            def _key(name):
                                try:
                                    if ag in info and name in info[ag] and bool(info[ag]["_" + name][i]):
                                        return int(info[ag][name][i])
                                except Exception:
                                    return -2
                                return -1
                            rowl.append({"present": True, "obs": -1 if oid is None else oid,
                                         "rew": 0 if rew is None else _intval(2.0 * float(np.asarray(rew[ag][i]).reshape(-1)[0])),
                                         "term": False if term is None else bool(term[ag][i]),
                                         "trunc": False if trunc is None else bool(trunc[ag][i]), "tick": tick,
                                         "aux": _key("aux"), "aux2": _key("aux2")})
                        out.append(rowl)
                    e["out"] = out
                    if op[0] == "reset":
                        sds = []
                        for i in range(NW):
                            try:
                                sds.append(int(info[agents[0]]["seed"][i]))
                            except Exception:
                                sds.append(-2)
                        e["seeds"] = sds
                    if cfg.get("copy", True):
                        e["prev_ok"] = all([[decode_obs(kind, _row(kind, o[ag], i)) for ag in agents] for i in range(NW)] == ids
                                           for o, ids in handed)
                        handed.append((obsd, [[decode_obs(kind, _row(kind, obsd[ag], i)) for ag in agents] for i in range(NW)]))
                else:
                    if op[0] == "reset":
                        obs, info = env.reset(seed=seed)
                        rew, term, trunc = {}, {}, {}
                    else:
                        live = list(env.agents) if mode == "wrapper" else list(env.agents)
                        acts = {ag: (np.array([float(op[1][0][a]) + 0.5], dtype=np.float32) if cfg.get("continuous") else op[1][0][a])
                                for a, ag in enumerate(agents) if ag in live}
                        nstep += 1
                        obs, rew, term, trunc, info = env.step(_reorder(acts, nstep))
                        if mode == "ref" and all(term[ag] or trunc[ag] for ag in term):
                            obs, _ = env.reset()          # what "environment i stepped alone, restarted when done" shows
                    rowl = []
                    for a, ag in enumerate(agents):
                        oid = decode_obs(kind, obs[ag]) if ag in obs else 0
                        rowl.append({"present": ag in rew or op[0] == "reset", "obs": -1 if oid is None else oid,
                                     "rew": _intval(2.0 * float(np.asarray(rew[ag]).reshape(-1)[0])) if ag in rew else 0,
                                     "term": bool(term.get(ag, False)), "trunc": bool(trunc.get(ag, False)),
                                     "tick": int(info[ag]["tick"]) if ag in info and "tick" in info[ag] else -1,
                                     "aux": int(info[ag]["aux"]) if ag in info and "aux" in info[ag] else -1,
                                     "aux2": int(info[ag]["aux2"]) if ag in info and "aux2" in info[ag] else -1})
                    e["out"] = [rowl]
                    if op[0] == "reset":
                        try:
                            e["seeds"] = [int(info[agents[0]]["seed"])]
                        except Exception:
                            e["seeds"] = [-2]
            except Exception as ex:
                e["exc"] = f"{type(ex).__name__}: {ex}"[:200]
                e["out"] = [[{"present": False, "obs": -1, "rew": 0, "term": False, "trunc": False, "tick": -1, "aux": -1, "aux2": -1} for _ in agents] for _ in range(NW)]
                ev.append(e)
                break
            ev.append(e)
    finally:
        try:
            if mode == "vec" and env is not None:
                env.close(terminate=True)
        except Exception:
            pass
    cfg = dict(cfg, seed=int(seed))
    return {"cfg": cfg, "ev": ev}
