"""Driver for X01: replay a history of operations into the REAL RSNorm wrapper around a REAL tiny DQN and
record, after every operation, the running statistics of every live wrapper, what the wrapped agent was
handed, whether the caller's observation survived and which agent the call reached.

Nothing of the code under test is stubbed.  The wrapped agent is a DQN subclass whose get_action / learn
record their input and then run the real method ("spy on the network input").

history = {"par": {"nslots", "nstat", "eps": [num, den]}, "family": ..., "ops": [...]}
  ops: {"op": "act", "slot", "batch": [[int]*nstat]*B, "unb": bool}
       {"op": "learn", "slot", "batch", "batch2"}        {"op": "mode", "slot", "training": bool}
       {"op": "clone", "slot", "src"}  {"op": "save", "slot"}  {"op": "load", "slot"}  {"op": "loadnew", "slot"}
families: vector (Box(nstat)), boxdict (Dict{a: Box(nstat-1), b: Box(1)}), tuple (Tuple(Box(nstat-1), Box(1))),
          boxdict+keys (the Dict space with norm_obs_keys=["a"]: statistic nstat is handed on unchanged)
"""
from __future__ import annotations

import math
import os
import shutil
import tempfile

import numpy as np
import torch

K = 10000        # scale of recorded statistics
KY = 100         # scale of recorded handed observations
CLIP_STAT = 200000
CLIP_HAND = 100000

_SPY = {}


def spy_class():
    """DQN that records what it is handed and then runs the real DQN method."""
    if "cls" in _SPY:
        return _SPY["cls"]
    from agilerl.algorithms.dqn import DQN

    class SpyDQN(DQN):
        spy_log = []

        def get_action(self, obs, *a, **k):
            SpyDQN.spy_log.append(("act", id(self), _detach(obs)))
            return super().get_action(obs, *a, **k)

        def learn(self, experiences, *a, **k):
            try:
                rec = (_detach(experiences["obs"]), _detach(experiences["next_obs"]))
            except Exception:                                   # tuple protocol
                rec = (_detach(experiences[0]), _detach(experiences[3]))
            SpyDQN.spy_log.append(("learn", id(self), rec))
            return super().learn(experiences, *a, **k)

    _SPY["cls"] = SpyDQN
    return SpyDQN


def _detach(o):
    from tensordict import is_tensor_collection
    if is_tensor_collection(o):
        return {k: _detach(v) for k, v in o.items()}
    if isinstance(o, dict):
        return {k: _detach(v) for k, v in o.items()}
    if isinstance(o, (tuple, list)):
        return tuple(_detach(v) for v in o)
    if isinstance(o, torch.Tensor):
        return o.detach().clone().cpu().numpy()
    return np.array(o, copy=True)


# ----------------------------------------------------------------------------- spaces / observations
def split(family, nstat):
    """[(key, first statistic (0-based), width)]"""
    if family == "vector":
        return [(None, 0, nstat)]
    return [("a", 0, nstat - 1), ("b", nstat - 1, 1)]


def make_space(family, nstat):
    from gymnasium import spaces
    box = lambda w: spaces.Box(-8.0, 8.0, (w,), dtype=np.float32)
    parts = split(family, nstat)
    if family == "vector":
        return box(nstat)
    if family.startswith("boxdict"):
        return spaces.Dict({k: box(w) for k, _, w in parts})
    if family == "tuple":
        return spaces.Tuple(tuple(box(w) for _, _, w in parts))
    raise ValueError(family)


def tracked(family, nstat):
    return list(range(1, nstat)) if family == "boxdict+keys" else list(range(1, nstat + 1))


def make_obs(family, nstat, rows, unb):
    arr = np.array(rows, dtype=np.float32).reshape(len(rows), nstat)
    if unb:
        arr = arr[0]
    parts = split(family, nstat)
    if family == "vector":
        return arr.copy()
    cols = [np.ascontiguousarray(arr[..., s0:s0 + w]) for _, s0, w in parts]
    if family == "tuple":
        return tuple(cols)
    return {k: c for (k, _, _), c in zip(parts, cols)}


def obs_copy(o):
    if isinstance(o, dict):
        return {k: v.copy() for k, v in o.items()}
    if isinstance(o, tuple):
        return tuple(v.copy() for v in o)
    return o.copy()


def obs_equal(a, b):
    if isinstance(a, dict):
        return isinstance(b, dict) and list(a.keys()) == list(b.keys()) and all(np.array_equal(a[k], b[k]) for k in a)
    if isinstance(a, tuple):
        return isinstance(b, tuple) and len(a) == len(b) and all(np.array_equal(x, y) for x, y in zip(a, b))
    return isinstance(b, np.ndarray) and a.shape == b.shape and np.array_equal(a, b)


def flatten_handed(family, nstat, h, nrows):
    """What the agent was handed -> rows x nstat floats (None if it does not have that shape)."""
    parts = split(family, nstat)
    try:
        if family == "vector":
            cols = [np.asarray(h, dtype=np.float64)]
        elif family == "tuple":
            if isinstance(h, dict):
                cols = [np.asarray(h[f"tuple_obs_{i}"], dtype=np.float64) for i in range(len(parts))]
            else:
                cols = [np.asarray(h[i], dtype=np.float64) for i in range(len(parts))]
        else:
            cols = [np.asarray(h[k], dtype=np.float64) for k, _, _ in parts]
        cols = [c.reshape(nrows, w) for c, (_, _, w) in zip(cols, parts)]
        return np.concatenate(cols, axis=1)
    except Exception:
        return None


def _sc(x, k, clip):
    x = float(x)
    if not math.isfinite(x):
        return clip
    return int(max(-clip, min(clip, round(x * k))))


# ----------------------------------------------------------------------------- the real objects
def make_wrapper(family, nstat, eps, seed):
    from gymnasium import spaces
    from agilerl.wrappers.agent import RSNorm
    from .. import zoo
    zoo.seed_all(seed)
    osp = make_space(family, nstat)
    nc = zoo.net_config("vector" if family == "vector" else "boxdict")
    nc["encoder_config"] = dict(nc["encoder_config"])
    agent = spy_class()(osp, spaces.Discrete(3), batch_size=4, lr=1e-3, tau=0.5, index=0,
                        hp_config=zoo.hp_config("DQN"), net_config=nc)
    kw = {"norm_obs_keys": ["a"]} if family == "boxdict+keys" else {}
    return RSNorm(agent, epsilon=eps, **kw)


def read_stats(w, family, nstat, eps):
    """[[mean, var, count] scaled] per statistic, and the same as floats."""
    parts = split(family, nstat)
    rms = w.obs_rms
    ints, flts = [], []
    for j, (k, s0, wd) in enumerate(parts):
        if family == "vector":
            r = rms
        elif family == "tuple":
            r = rms[j]
        else:
            r = rms.get(k) if isinstance(rms, dict) else None
        for c in range(wd):
            if r is None:                      # key not normalised: no statistics kept
                m, v, n = 0.0, 1.0, eps
            else:
                m = float(r.mean.reshape(-1)[c])
                v = float(r.var.reshape(-1)[c])
                n = float(r.count.reshape(-1)[0])
            ints.append([_sc(m, K, CLIP_STAT), _sc(v, K, CLIP_STAT), _sc(n, K, CLIP_STAT)])
            flts.append([m, v, n])
    return ints, flts


def make_learn_batch(family, nstat, rows, rows2):
    from tensordict import TensorDict
    B = len(rows)

    def td(rs):
        o = make_obs(family, nstat, rs, False)
        if family == "vector":
            return torch.as_tensor(o)
        if family == "tuple":
            return TensorDict({f"tuple_obs_{i}": torch.as_tensor(c) for i, c in enumerate(o)}, batch_size=[B])
        return TensorDict({k: torch.as_tensor(c) for k, c in o.items()}, batch_size=[B])

    return TensorDict({"obs": td(rows), "action": torch.zeros((B, 1)), "reward": torch.ones((B, 1)),
                       "next_obs": td(rows2), "done": torch.zeros((B, 1))}, batch_size=[B])


def run(history, seed=0):
    """-> (trace for RSNorm_Trace, aux = per event floats for the tight comparison in Python)."""
    par = history["par"]
    family = history.get("family", "vector")
    nslots, nstat = int(par["nslots"]), int(par["nstat"])
    eps_q = [int(par["eps"][0]), int(par["eps"][1])]
    eps = eps_q[0] / eps_q[1]
    Spy = spy_class()
    Spy.spy_log.clear()
    cfg = {"nslots": nslots, "nstat": nstat, "tracked": tracked(family, nstat), "eps": eps_q, "family": family}
    ev, aux = [], []
    W = [None] * (nslots + 1)
    tmp = tempfile.mkdtemp(prefix="rsnorm-")
    path = os.path.join(tmp, "ckpt.pt")

    def snapshot(e):
        e["alive"] = [W[a] is not None for a in range(1, nslots + 1)]
        e["mode"] = [bool(W[a].training) if W[a] is not None else False for a in range(1, nslots + 1)]
        st, fl = [], []
        for a in range(1, nslots + 1):
            if W[a] is None:
                st.append([])
                fl.append([])
            else:
                i, f = read_stats(W[a], family, nstat, eps)
                st.append(i)
                fl.append(f)
        e["stats"] = st
        return fl

    try:
        e = {"op": "create", "slot": 1, "exc": ""}
        try:
            W[1] = make_wrapper(family, nstat, eps, seed)
            fl = snapshot(e)
        except Exception as ex:
            e["exc"] = f"{type(ex).__name__}: {ex}"[:200]
            ev.append(e)
            aux.append({})
            return {"cfg": cfg, "ev": ev}, aux
        ev.append(e)
        aux.append({"stats": fl})
        for k, o in enumerate(history["ops"]):
            op, a = o["op"], int(o["slot"])
            e = {"op": op, "slot": a, "exc": ""}
            ax = {}
            try:
                if op == "act":
                    rows, unb = [list(map(int, r)) for r in o["batch"]], bool(o.get("unb", False))
                    e.update(batch=rows, unb=unb, train=bool(W[a].training))
                    x = make_obs(family, nstat, rows, unb)
                    x0 = obs_copy(x)
                    n0 = len(Spy.spy_log)
                    via = o.get("via", "wrapper" if k % 3 else "agent")
                    e["via"] = via
                    if via == "agent":
                        W[a].agent.get_action(x)          # the agent's own (re-bound) entry point
                    else:
                        W[a].get_action(x)
                    e["same"] = bool(obs_equal(x0, x))
                    got = Spy.spy_log[n0:]
                    e["routed"] = bool(len(got) == 1 and got[0][0] == "act" and got[0][1] == id(W[a].agent))
                    h = flatten_handed(family, nstat, got[-1][2], len(rows)) if got else None
                    if h is None:
                        e["hand"] = []
                    else:
                        e["hand"] = [[_sc(v, KY, CLIP_HAND) for v in r] for r in h]
                        ax["hand"] = h.tolist()
                elif op == "learn":
                    rows = [list(map(int, r)) for r in o["batch"]]
                    rows2 = [list(map(int, r)) for r in o["batch2"]]
                    e.update(batch=rows, batch2=rows2, train=bool(W[a].training))
                    b = make_learn_batch(family, nstat, rows, rows2)
                    b0 = b.clone()
                    n0 = len(Spy.spy_log)
                    via = o.get("via", "wrapper" if k % 2 else "agent")
                    e["via"] = via
                    if via == "agent":
                        W[a].agent.learn(b)
                    else:
                        W[a].learn(b)
                    e["caller_batch_modified"] = (not bool((b0["obs"] == b["obs"]).all())) if family == "vector" else False
                    got = Spy.spy_log[n0:]
                    e["routed"] = bool(len(got) == 1 and got[0][0] == "learn" and got[0][1] == id(W[a].agent))
                    h = flatten_handed(family, nstat, got[-1][2][0], len(rows)) if got else None
                    h2 = flatten_handed(family, nstat, got[-1][2][1], len(rows)) if got else None
                    e["hand"] = [] if h is None else [[_sc(v, KY, CLIP_HAND) for v in r] for r in h]
                    e["hand2"] = [] if h2 is None else [[_sc(v, KY, CLIP_HAND) for v in r] for r in h2]
                    if h is not None and h2 is not None:
                        ax["hand"], ax["hand2"] = h.tolist(), h2.tolist()
                elif op == "mode":
                    e["flag"] = bool(o["training"])
                    W[a].set_training_mode(e["flag"])
                elif op == "clone":
                    e["src"] = int(o["src"])
                    W[a] = W[e["src"]].clone()
                elif op == "save":
                    W[a].save_checkpoint(path)
                elif op == "load":
                    W[a].load_checkpoint(path)
                elif op == "loadnew":
                    W[a] = Spy.load(path)
                else:
                    raise ValueError(op)
                ax["stats"] = snapshot(e)
            except Exception as ex:
                e["exc"] = f"{type(ex).__name__}: {ex}"[:200]
                ev.append(e)
                aux.append(ax)
                break
            ev.append(e)
            aux.append(ax)
    finally:
        shutil.rmtree(tmp, ignore_errors=True)
        Spy.spy_log.clear()
    return {"cfg": cfg, "ev": ev}, aux
