"""Driver for the rollout-flags stage of C17: the REAL train_on_policy (PPO) and train_multi_agent_on_policy (IPPO)
collect rollouts on vectorised scripted environments; what the loops hand to learn() is compared with what the
environment did (specs/Rollout_Trace.tla).

Nothing of the code under test is replaced.  Observation happens through
  * the vector environment's own step / reset (wrapped: the original is called, the returned terminations,
    truncations and observations are logged),
  * a class-level spy around learn() that logs the experiences' done flags, next_done, and the identity of the
    observations in `states` / `next_state`, then calls the real learn(),
  * a class-level wrapper around test() so that evaluation episodes (which run on the same environment between
    generations) are not logged as rollout steps.

Scripted environments: sub-environment i plays the episodes of script[i] = [(length, kind), ...] cyclically;
kind "term" / "trunc" = every agent is terminated / truncated (time limit) at the last step of the episode,
"mixed" = agent 0 terminated and the others truncated, "mixed2" = the other way round.  The observation of agent a
after t steps of episode number ep is [ep/1024, t/64, i/8, a/4] (exact in float32), the episode number counts the
reset() calls of the sub-environment, so the observation itself says which episode it belongs to.
Single-agent: gymnasium SyncVectorEnv(autoreset_mode=SAME_STEP); multi-agent: AsyncPettingZooVecEnv, or (cfg "vec": False)
the raw scripted ParallelEnv behind a thin logging wrapper: train_multi_agent_on_policy then takes its non-vectorised
branch, in which the LOOP calls env.reset() inside the rollout when all agents are done (trace cfg mode = "loop").

One trace per training run:
  reset  ep[e][a]                                   episode number of the observations returned by env.reset()
  step   term[e][a], trunc[e][a], ep[e][a], k[e][a] what the vector env returned: flags, identity of the next observation
  learn  dones[t][e][a], nd[e][a], sid[t][e][a] = [ep, k] of states[t], nid[e][a] = [ep, k] of next_state, exc;
         PPO only: lp_ok[t][e][a], val_ok[t][e][a] (1 = re-evaluating the stored observation/action row with the agent's own
         evaluate_actions BEFORE learn() reproduces the stored log-probability / value within 1e-5), reeval_exc
  crash  exception escaping the training function
"""
from __future__ import annotations

import contextlib
import io
import random
import traceback
import warnings
from unittest import mock

import numpy as np
import torch

NET = {"encoder_config": {"hidden_size": [8]}, "head_config": {"hidden_size": [8]}}
KINDS = ("term", "trunc", "mixed", "mixed2")


def make_scripts(rng: random.Random, E: int, multi: bool):
    """Per sub-environment a cyclic list of (length, kind) that contains a termination and a truncation; the
    sub-environments get different lists, so their episodes end at different times."""
    kinds = KINDS if multi else KINDS[:2]
    while True:
        scripts = []
        for _ in range(E):
            n = rng.randint(3, 5)
            s = [(rng.randint(1, 4), rng.choice(kinds)) for _ in range(n)]
            s[rng.randrange(n)] = (rng.randint(1, 3), "trunc")
            j = rng.randrange(n)
            if s[j][1] == "trunc" and sum(1 for x in s if x[1] == "trunc") == 1:
                j = (j + 1) % n
            s[j] = (rng.randint(1, 3), "term")
            scripts.append(s)
        if len({tuple(s) for s in scripts}) == E:
            return scripts


def _obs_vec(ep, t, idx, a):
    return np.array([ep / 1024.0, t / 64.0, idx / 8.0, a / 4.0], dtype=np.float32)


def obs_ident(row):
    """observation row -> [episode, step in episode]; [-1, -1] if the row is not one of the scripted observations"""
    r = np.asarray(row, dtype=np.float64).reshape(-1)
    if r.shape[0] != 4:
        return [-1, -1]
    ep, k = r[0] * 1024.0, r[1] * 64.0
    if ep != int(ep) or k != int(k) or ep < 0 or k < 0:
        return [-1, -1]
    return [int(ep), int(k)]


# ============================================================================================ environments
def _single_env_cls():
    import gymnasium as gym
    from gymnasium import spaces

    class ScriptEnv(gym.Env):
        metadata = {"render_modes": []}

        def __init__(self, idx, script, box=False):
            self.observation_space = spaces.Box(0.0, 1.0, (4,), dtype=np.float32)
            # box: narrow bounds, so that most samples of the (unit-variance) Gaussian policy fall outside and the loop's clipping matters
            self.action_space = spaces.Box(-0.25, 0.25, (2,), dtype=np.float32) if box else spaces.Discrete(3)
            self.box = box
            self.idx, self.script = idx, list(script)
            self.ep, self.t = 0, 0

        def reset(self, seed=None, options=None):
            self.ep += 1
            self.t = 0
            return _obs_vec(self.ep, 0, self.idx, 0), {}

        def step(self, action):
            self.t += 1
            L, kind = self.script[self.ep % len(self.script)]
            last = self.t >= L
            if self.box:
                r = float(np.asarray(action, dtype=np.float64).reshape(-1)[0]) - 0.25 * self.t
            else:
                r = float(int(action) == self.t % 3) - 0.25 * self.t
            return _obs_vec(self.ep, self.t, self.idx, 0), r, bool(last and kind == "term"), bool(last and kind == "trunc"), {}

    return ScriptEnv


def _multi_env_cls():
    from gymnasium import spaces
    from pettingzoo import ParallelEnv

    class ScriptParallelEnv(ParallelEnv):
        metadata = {"name": "rollout_script_v0", "render_modes": []}
        render_mode = None

        def __init__(self, idx, script, agent_names):
            self.idx, self.script = idx, list(script)
            self.possible_agents = list(agent_names)
            self.agents = self.possible_agents[:]
            self.ep, self.t = 0, 0

        def observation_space(self, agent):
            return spaces.Box(0.0, 1.0, (4,), dtype=np.float32)

        def action_space(self, agent):
            return spaces.Discrete(3)

        def _obs(self):
            return {ag: _obs_vec(self.ep, self.t, self.idx, a) for a, ag in enumerate(self.possible_agents)}

        def reset(self, seed=None, options=None):
            self.ep += 1
            self.t = 0
            self.agents = self.possible_agents[:]
            return self._obs(), {ag: {} for ag in self.agents}

        def step(self, actions):
            self.t += 1
            L, kind = self.script[self.ep % len(self.script)]
            last = self.t >= L
            term, trunc, rew = {}, {}, {}
            for a, ag in enumerate(self.possible_agents):
                is_term = kind == "term" or (kind == "mixed" and a == 0) or (kind == "mixed2" and a != 0)
                term[ag] = bool(last and is_term)
                trunc[ag] = bool(last and not is_term)
                rew[ag] = float(int(np.asarray(actions[ag]).reshape(-1)[0]) == (self.t + a) % 3) - 0.25 * self.t
            obs = self._obs()
            if last:
                self.agents = []
            return obs, rew, term, trunc, {ag: {} for ag in self.possible_agents}

        def close(self):
            pass

    return ScriptParallelEnv


class Rec:
    def __init__(self):
        self.ev = []
        self.in_test = 0


def make_single_vec(rec, scripts, autoreset="same", box=False):
    from gymnasium.vector import AutoresetMode, SyncVectorEnv
    ScriptEnv = _single_env_cls()
    mode = {"same": AutoresetMode.SAME_STEP, "next": AutoresetMode.NEXT_STEP}[autoreset]

    class LoggedVec(SyncVectorEnv):
        def step(self, actions):
            out = super().step(actions)
            if not rec.in_test:
                obs, _, term, trunc, _ = out
                ids = [obs_ident(obs[e]) for e in range(self.num_envs)]
                rec.ev.append({"op": "step", "term": [[int(bool(term[e]))] for e in range(self.num_envs)],
                               "trunc": [[int(bool(trunc[e]))] for e in range(self.num_envs)],
                               "ep": [[ids[e][0]] for e in range(self.num_envs)], "k": [[ids[e][1]] for e in range(self.num_envs)]})
            return out

        def reset(self, *a, **kw):
            out = super().reset(*a, **kw)
            if not rec.in_test:
                rec.ev.append({"op": "reset", "ep": [[obs_ident(out[0][e])[0]] for e in range(self.num_envs)]})
            return out

    return LoggedVec([(lambda i=i: ScriptEnv(i, scripts[i], box)) for i in range(len(scripts))], autoreset_mode=mode)


def make_multi_vec(rec, scripts, agent_names):
    from agilerl.vector.pz_async_vec_env import AsyncPettingZooVecEnv
    Env = _multi_env_cls()
    env = AsyncPettingZooVecEnv([(lambda i=i: Env(i, scripts[i], agent_names)) for i in range(len(scripts))])
    o_step, o_reset = env.step, env.reset
    E = len(scripts)

    def step(actions):
        out = o_step(actions)
        if not rec.in_test:
            obs, _, term, trunc, _ = out
            ids = [[obs_ident(obs[ag][e]) for ag in agent_names] for e in range(E)]
            rec.ev.append({"op": "step", "term": [[int(bool(term[ag][e])) for ag in agent_names] for e in range(E)],
                           "trunc": [[int(bool(trunc[ag][e])) for ag in agent_names] for e in range(E)],
                           "ep": [[x[0] for x in row] for row in ids], "k": [[x[1] for x in row] for row in ids]})
        return out

    def reset(*a, **kw):
        out = o_reset(*a, **kw)
        if not rec.in_test:
            rec.ev.append({"op": "reset", "ep": [[obs_ident(out[0][ag][e])[0] for ag in agent_names] for e in range(E)]})
        return out

    env.step, env.reset = step, reset
    return env


def make_multi_raw(rec, script, agent_names):
    """The raw scripted ParallelEnv (one environment, no num_envs attribute) with its own step / reset logged."""
    Env = _multi_env_cls()
    inner = Env(0, script, agent_names)

    class Logged:
        metadata = inner.metadata
        render_mode = None
        possible_agents = list(agent_names)

        @property
        def agents(self):
            return inner.agents

        def observation_space(self, agent):
            return inner.observation_space(agent)

        def action_space(self, agent):
            return inner.action_space(agent)

        def step(self, actions):
            out = inner.step(actions)
            if not rec.in_test:
                obs, _, term, trunc, _ = out
                ids = [obs_ident(obs[ag]) for ag in agent_names]
                rec.ev.append({"op": "step", "term": [[int(bool(term[ag])) for ag in agent_names]],
                               "trunc": [[int(bool(trunc[ag])) for ag in agent_names]],
                               "ep": [[x[0] for x in ids]], "k": [[x[1] for x in ids]]})
            return out

        def reset(self, *a, **kw):
            out = inner.reset(*a, **kw)
            if not rec.in_test:
                rec.ev.append({"op": "reset", "ep": [[obs_ident(out[0][ag])[0] for ag in agent_names]]})
            return out

        def close(self):
            pass

    return Logged()


# ============================================================================================ spies
def _flag(x):
    x = float(np.asarray(x).reshape(-1)[0]) if np.asarray(x).size == 1 else float("nan")
    return int(x) if x in (0.0, 1.0) else -1


def _flags_row(arr, E):
    """per-environment flags of one time step (or next_done): list of E ints in {0, 1}; -1 = not a flag / wrong shape"""
    a = np.asarray(arr.detach().cpu().numpy() if isinstance(arr, torch.Tensor) else arr)
    a = a.reshape(-1) if a.size == E else None
    return [(_flag(a[e]) if a is not None else -1) for e in range(E)]


def _idents(arr, E):
    a = np.asarray(arr.detach().cpu().numpy() if isinstance(arr, torch.Tensor) else arr)
    if a.size != E * 4:
        return [[-1, -1] for _ in range(E)]
    a = a.reshape(E, 4)          # a non-vectorised loop hands observations without the environment axis
    return [obs_ident(a[e]) for e in range(E)]


def _reevaluate(agent, experiences, E):
    """PPO, before the real learn() (weights unchanged since the rollout was collected): evaluate the stored (observation,
    action) rows with the agent's own evaluate_actions and compare with the stored log-probabilities / values.
    -> (lp_ok[t][e][0], val_ok[t][e][0], exception text)"""
    from gymnasium import spaces
    states, actions, log_probs, _, _, values, _, _ = experiences
    lp_ok, val_ok = [], []
    rng = torch.get_rng_state()
    try:
        with torch.no_grad():
            for t in range(len(states)):
                a = torch.as_tensor(np.asarray(actions[t]))
                a = a.reshape(-1) if isinstance(agent.action_space, spaces.Discrete) else a.reshape(-1, *agent.action_space.shape).float()
                lp, _, val = agent.evaluate_actions(obs=states[t], actions=a.to(agent.device))
                lp = np.asarray(lp.detach().cpu().numpy(), dtype=np.float64).reshape(-1)
                val = np.asarray(val.detach().cpu().numpy(), dtype=np.float64).reshape(-1)
                slp = np.asarray(torch.as_tensor(log_probs[t]).detach().cpu().numpy(), dtype=np.float64).reshape(-1)
                sval = np.asarray(torch.as_tensor(values[t]).detach().cpu().numpy(), dtype=np.float64).reshape(-1)
                ok = lp.shape == slp.shape == (E,) and val.shape == sval.shape == (E,)
                lp_ok.append([[int(ok and abs(lp[e] - slp[e]) <= 1e-5)] for e in range(E)])
                val_ok.append([[int(ok and abs(val[e] - sval[e]) <= 1e-5)] for e in range(E)])
        return lp_ok, val_ok, ""
    except Exception as ex:
        return [], [], f"{type(ex).__name__}: {ex}"[:200]
    finally:
        torch.set_rng_state(rng)


@contextlib.contextmanager
def spy(cls, rec, E, agent_names):
    o_learn, o_test = cls.learn, cls.test

    def learn(self, experiences, *a, **kw):
        states, _, _, _, dones, _, next_state, next_done = experiences
        if agent_names is None:
            T = len(dones)
            e = {"op": "learn",
                 "dones": [[[f] for f in _flags_row(dones[t], E)] for t in range(T)],
                 "nd": [[f] for f in _flags_row(next_done, E)],
                 "sid": [[[x] for x in _idents(states[t], E)] for t in range(len(states))],
                 "nid": [[x] for x in _idents(next_state, E)]}
            e["lp_ok"], e["val_ok"], e["reeval_exc"] = _reevaluate(self, experiences, E)
        else:
            T = len(dones[agent_names[0]])
            col = lambda per_agent: [[per_agent[a][e_] for a in range(len(agent_names))] for e_ in range(E)]
            e = {"op": "learn",
                 "dones": [col([_flags_row(dones[ag][t], E) for ag in agent_names]) for t in range(T)],
                 "nd": col([_flags_row(next_done[ag], E) for ag in agent_names]),
                 "sid": [col([_idents(states[ag][t], E) for ag in agent_names]) for t in range(len(states[agent_names[0]]))],
                 "nid": col([_idents(next_state[ag], E) for ag in agent_names])}
        e["exc"] = ""
        e["learn_step"] = int(self.learn_step)
        rec.ev.append(e)
        try:
            return o_learn(self, experiences, *a, **kw)
        except Exception as ex:
            e["exc"] = f"{type(ex).__name__}: {ex}"[:200]
            raise

    def test(self, *a, **kw):
        rec.in_test += 1
        try:
            return o_test(self, *a, **kw)
        finally:
            rec.in_test -= 1

    with mock.patch.object(cls, "learn", learn), mock.patch.object(cls, "test", test):
        yield


def _where(tb):
    w = ""
    for fr in traceback.extract_tb(tb):
        if "/agilerl/" in fr.filename:
            w = f"{fr.filename.rsplit('/', 1)[-1]}:{fr.name}"
    return w


# ============================================================================================ one run
def run(cfg):
    """cfg: loop ("ppo" | "ippo"), vec (default True; False: IPPO on the raw ParallelEnv, E = 1), E, seed, learn_steps (one per population member), rolls (rollouts per turn), gens,
    agents (ippo: agent names), autoreset ("same"; "next" only for experiments).  Returns {"cfg", "ev"}."""
    warnings.filterwarnings("ignore")
    import gymnasium
    gymnasium.logger.min_level = 50
    torch.set_num_threads(1)
    from .. import zoo
    loop, E, seed = cfg["loop"], int(cfg["E"]), int(cfg["seed"])
    multi = loop == "ippo"
    vec = bool(cfg.get("vec", True))
    if not vec:
        assert multi and E == 1, "non-vectorised runs: IPPO on one raw ParallelEnv"
    names = list(cfg.get("agents") or ["agent_0", "agent_1"]) if multi else None
    rng = random.Random(seed * 7919 + (1 if multi else 0))
    scripts = cfg.get("scripts") or make_scripts(rng, E, multi)
    learn_steps = [int(x) for x in cfg["learn_steps"]]
    rec = Rec()
    out = {"cfg": {"loop": loop, "E": E, "A": len(names) if multi else 1, "seed": seed, "learn_steps": learn_steps,
                   "rolls": int(cfg["rolls"]), "gens": int(cfg["gens"]), "agents": names or [],
                   "scripts": [[list(x) for x in s] for s in scripts], "autoreset": cfg.get("autoreset", "same"),
                   "vec": vec, "mode": "auto" if vec else "loop", "box": bool(cfg.get("box", False))},
           "ev": rec.ev}
    env = None
    zoo.seed_all(seed)
    try:
        # every member takes rolls rollouts per turn: evo_steps = rolls * max(learn_step) would give the members with a
        # smaller learn_step more rollouts, which is fine; the number of generations follows from max_steps
        evo_steps = int(cfg["rolls"]) * max(learn_steps)
        per_gen = [(-(evo_steps // -ls)) * (-(ls // -E)) * E for ls in learn_steps]
        if multi:
            env = make_multi_vec(rec, scripts, names) if vec else make_multi_raw(rec, scripts[0], names)
            from agilerl.algorithms.ippo import IPPO
            osp = [(env.single_observation_space(a) if vec else env.observation_space(a)) for a in names]
            asp = [(env.single_action_space(a) if vec else env.action_space(a)) for a in names]
            pop = [IPPO(osp, asp, agent_ids=names, index=i, net_config=NET, batch_size=8, lr=1e-3, update_epochs=1, learn_step=ls)
                   for i, ls in enumerate(learn_steps)]
            max_steps = int(cfg["gens"]) * sum(per_gen) - 1           # loop condition: sum of the members' steps < max_steps
        else:
            env = make_single_vec(rec, scripts, cfg.get("autoreset", "same"), bool(cfg.get("box", False)))
            from agilerl.algorithms.ppo import PPO
            pop = [PPO(env.single_observation_space, env.single_action_space, index=i, net_config=NET, batch_size=8, lr=1e-3,
                       update_epochs=1, learn_step=ls, share_encoders=False) for i, ls in enumerate(learn_steps)]
            max_steps = (int(cfg["gens"]) - 1) * min(per_gen) + 1      # loop condition: every member's steps < max_steps
        sink = io.StringIO()
        with spy(type(pop[0]), rec, E, names), contextlib.redirect_stdout(sink), contextlib.redirect_stderr(sink):
            try:
                common = dict(max_steps=max_steps, evo_steps=evo_steps, eval_steps=None, eval_loop=1, tournament=None,
                              mutation=None, wb=False, verbose=False)
                if multi:
                    from agilerl.training.train_multi_agent_on_policy import train_multi_agent_on_policy
                    train_multi_agent_on_policy(env, "script", "IPPO", pop, **common)
                else:
                    from agilerl.training.train_on_policy import train_on_policy
                    train_on_policy(env, "script", "PPO", pop, **common)
            except Exception as ex:
                rec.ev.append({"op": "crash", "exc": type(ex).__name__, "msg": str(ex)[:200], "where": _where(ex.__traceback__),
                               "tb": traceback.format_exc()[-1200:]})
        return out
    finally:
        try:
            if env is not None:
                env.close()
        except Exception:
            pass
        try:
            from agilerl.utils import verif_hooks
            verif_hooks.drain()          # the guarded recorder of PPO.learn / IPPO.learn is not used by this stage
        except Exception:
            pass


def stats(trace):
    """what kinds of episode ends the recorded rollouts contain (vacuity guard of the stage)"""
    s = {"learn": 0, "step": 0, "term_inner": 0, "trunc_inner": 0, "term_last": 0, "trunc_last": 0, "cont_last": 0,
         "envs_differ": 0, "agents_differ": 0, "carry": 0, "loop_reset": 0, "loop_reset_inner": 0, "reeval_rows": 0}
    steps = []
    prev_last_ended = False
    pending = False          # a reset by the loop inside the running rollout (non-vectorised runs) not yet followed by a step
    for e in trace["ev"]:
        if e["op"] == "reset" and steps and trace["cfg"].get("mode") == "loop":
            s["loop_reset"] += 1
            pending = True
        elif e["op"] == "reset":
            steps = []
            prev_last_ended = False
        elif e["op"] == "step":
            s["loop_reset_inner"] += int(pending)          # the rollout goes on after the loop's reset
            pending = False
            steps.append(e)
            s["step"] += 1
            ended = [[bool(t or u) for t, u in zip(tr, ur)] for tr, ur in zip(e["term"], e["trunc"])]
            if len({tuple(r) for r in ended}) > 1:
                s["envs_differ"] += 1
            if any(len(set(zip(tr, ur))) > 1 for tr, ur in zip(e["term"], e["trunc"])):
                s["agents_differ"] += 1
        elif e["op"] == "learn":
            s["learn"] += 1
            s["reeval_rows"] += len(e.get("lp_ok") or [])
            pending = False
            if prev_last_ended:
                s["carry"] += 1          # a rollout that begins right after an episode end (flag of the first row is not used)
            for j, st in enumerate(steps):
                only_term = any(t and not u for tr, ur in zip(st["term"], st["trunc"]) for t, u in zip(tr, ur))
                only_trunc = any(u and not t for tr, ur in zip(st["term"], st["trunc"]) for t, u in zip(tr, ur))
                lastp = j == len(steps) - 1
                s["term_last" if lastp else "term_inner"] += int(only_term)
                s["trunc_last" if lastp else "trunc_inner"] += int(only_trunc)
                if lastp:
                    s["cont_last"] += int(any(not (t or u) for tr, ur in zip(st["term"], st["trunc"]) for t, u in zip(tr, ur)))
                    prev_last_ended = any(t or u for tr, ur in zip(st["term"], st["trunc"]) for t, u in zip(tr, ur))
            steps = []
    return s
