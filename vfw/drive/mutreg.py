"""Driver for X02: operation sequences on REAL EvolvableModule trees, one observed event per operation.

Two families of real objects:
  custom  tiny concrete EvolvableModule / EvolvableWrapper subclasses defined here (Leaf, Mid, Wrap, Root0..RootW); the class
          catalogue of the specification instance (specs/MutReg_MC.tla, CatCustom) describes exactly these classes
          (check_catalog() compares it with the decorators of the real classes)
  real    AgileRL networks and modules (QNetwork, StochasticActor, ... EvolvableMultiInput); their catalogue is read off a
          freshly constructed object (own @mutation methods by decorator kind from the class hierarchy, children from the
          module tree) plus the documented fall-backs and the children recreate_network() replaces

Nothing of the code under test is stubbed.  Inputs that are controlled: the fall-back decisions of the custom classes
(HOPS), the rng handed to sample_mutation_method (an index-scripted one that records the probabilities it was given, and a
real seeded numpy Generator), numpy's global seed.  Observation reads public and private attributes, spies on
recreate_network (instance attribute wrapping the bound method) and registers a counting mutation hook.
"""
from __future__ import annotations

import copy
import functools
import json
import random
from fractions import Fraction
from typing import Any, Dict, List, Optional, Tuple

import numpy as np
import torch

torch.set_num_threads(1)

from agilerl.modules.base import (EvolvableModule, EvolvableWrapper, ModuleDict, MutationType, mutation)  # noqa: E402

# ------------------------------------------------------------------------------------------------ custom family
HOPS = [0]          # number of fall-backs the next bodies will still take (input script)
BODIES: List[Tuple[Any, str]] = []      # (object, method) of every method body that really applied something


def _hop() -> bool:
    if HOPS[0] > 0:
        HOPS[0] -= 1
        return True
    return False


class Leaf(EvolvableModule):
    """layer method add_layer (falls back on add_node, as EvolvableMLP.add_layer does at its limit), node method add_node"""

    def __init__(self, width: int = 4, device: str = "cpu"):
        super().__init__(device)
        self.width = width

    @mutation(MutationType.LAYER)
    def add_layer(self):
        if _hop():
            return self.add_node()
        BODIES.append((self, "add_layer"))
        self.width += 16

    @mutation(MutationType.NODE)
    def add_node(self):
        BODIES.append((self, "add_node"))
        self.width += 1

    def recreate_network(self):
        pass

    def forward(self, x):
        return x

    def fingerprint(self):
        return ("Leaf", self.width)


class Wrap(EvolvableWrapper):
    """EvolvableWrapper around a Leaf, written like agilerl.networks.distributions.EvolvableDistribution"""

    def __init__(self, module: EvolvableModule):
        super().__init__(module)

    def forward(self, x):
        return self.wrapped(x)

    def fingerprint(self):
        return ("Wrap",) + self.wrapped.fingerprint()


class Mid(EvolvableModule):
    """own node method grow, which may delegate to the registered method leaf.add_node of its child"""

    def __init__(self, size: int = 1, device: str = "cpu"):
        super().__init__(device)
        self.size = size
        self.leaf = Leaf(device=device)

    @mutation(MutationType.NODE)
    def grow(self):
        if _hop():
            return getattr(self, "leaf.add_node")()
        BODIES.append((self, "grow"))
        self.size += 1

    def recreate_network(self):
        pass

    def forward(self, x):
        return self.leaf(x)

    def fingerprint(self):
        return ("Mid", self.size)


class _Root(EvolvableModule):
    def __init__(self, size: int = 1, device: str = "cpu"):
        super().__init__(device)
        self.size = size
        self.build(device)

    def build(self, device):
        pass

    @mutation(MutationType.LAYER)
    def deepen(self):
        if _hop():
            return self.widen()
        BODIES.append((self, "deepen"))
        self.size += 16

    @mutation(MutationType.NODE)
    def widen(self):
        BODIES.append((self, "widen"))
        self.size += 1

    def recreate_network(self):
        pass

    def forward(self, x):
        return x

    def fingerprint(self):
        return (type(self).__name__, self.size)


class Root0(_Root):
    pass


class Root1(_Root):
    def build(self, device):
        self.net = Leaf(device=device)


class Root2(_Root):
    def build(self, device):
        self.net = Leaf(device=device)
        self.net2 = Leaf(device=device)


class RootM(_Root):
    def build(self, device):
        self.net = Mid(device=device)


class RootW(_Root):
    def build(self, device):
        self.net = Leaf(device=device)
        self.head = Wrap(Leaf(device=device))


CUSTOM = {c.__name__: c for c in (Leaf, Wrap, Mid, Root0, Root1, Root2, RootM, RootW)}


def custom_factory(name: str):
    if name == "Wrap":
        return Wrap(Leaf())
    return CUSTOM[name]()


# ------------------------------------------------------------------------------------------------ walking real trees
def split(name: Optional[str]) -> List[str]:
    return [] if name is None else str(name).split(".")


def is_public(attr: str) -> bool:
    return not attr.startswith("_") and not attr.endswith("_")


def children(obj) -> List[Tuple[str, Any]]:
    """nested evolvable modules held by public attributes (ModuleDict: its entries); a wrapper's wrapped module is not a
    child (wrapper and wrapped module are one node)"""
    return [(a, m) for a, m in obj._modules.items() if isinstance(m, EvolvableModule) and is_public(a)]


def walk(root, pre=()):
    yield tuple(pre), root
    for a, m in children(root):
        yield from walk(m, tuple(pre) + (a,))


def method_owner(obj):
    """the object whose class defines the @mutation methods of this node"""
    return obj.wrapped if isinstance(obj, EvolvableWrapper) else obj


def own_methods(obj) -> Dict[str, List[str]]:
    """names of the @mutation(LAYER / NODE) methods of the node, read from the class hierarchy (not from the registry)"""
    out = {"L": [], "N": []}
    seen = set()
    for k in type(method_owner(obj)).__mro__:
        for n, f in vars(k).items():
            t = getattr(f, "_mutation_type", None)
            if n in seen or t is None:
                continue
            seen.add(n)
            if t == MutationType.LAYER:
                out["L"].append(n)
            elif t == MutationType.NODE:
                out["N"].append(n)
    return {k: sorted(v) for k, v in out.items()}


# fall-backs documented in the method docstrings / bodies ("Falls back on add_node() if max hidden layers reached")
FALLBACKS = {
    "EvolvableMLP": {"add_layer": "add_node", "remove_layer": "add_node"},
    "EvolvableCNN": {"add_layer": "add_channel", "remove_layer": "add_channel", "change_kernel": "add_layer"},
    "EvolvableLSTM": {"add_layer": "add_node", "remove_layer": "add_node"},
    "EvolvableSimBa": {"add_block": "add_node", "remove_block": "add_node"},
    "EvolvableResNet": {"add_block": "add_channel", "remove_block": "add_channel"},
}


def fallbacks_of(obj) -> List[dict]:
    for k in type(method_owner(obj)).__mro__:
        if k.__name__ in FALLBACKS:
            return [{"f": f, "to": [t]} for f, t in sorted(FALLBACKS[k.__name__].items())]
    return []


def real_cls(obj, path) -> str:
    return type(obj).__name__ + ("@" + ".".join(path) if path else "")


def real_catalog(root) -> List[dict]:
    """class catalogue of a freshly constructed real module tree (one class per position)"""
    from agilerl.modules.multi_input import EvolvableMultiInput
    from agilerl.networks.base import EvolvableNetwork

    cat = []
    for path, obj in walk(root):
        kids = []
        for a, m in children(obj):
            pre = ["L"] if (isinstance(obj, EvolvableNetwork) and a == "encoder") else []
            kids.append({"a": a, "c": real_cls(m, path + (a,)), "pre": pre})
        own = {"L": [], "N": []} if isinstance(obj, ModuleDict) else own_methods(obj)
        rebuild = []
        if isinstance(obj, EvolvableNetwork):
            rebuild = [k["a"] for k in kids if k["a"] in ("encoder", "head_net")]
        elif isinstance(obj, EvolvableMultiInput):
            rebuild = [k["a"] for k in kids if k["a"] == "feature_net"]
        cat.append({"name": real_cls(obj, path), "L": own["L"], "N": own["N"], "fb": fallbacks_of(obj), "kids": kids,
                    "rebuild": rebuild, "container": isinstance(obj, ModuleDict), "wrapper": isinstance(obj, EvolvableWrapper)})
    return cat


def check_catalog(cat: List[dict]) -> List[str]:
    """the custom classes really are what the TLA+ catalogue says (decorator kinds, constructor children)"""
    bad = []
    for c in cat:
        if c["name"] not in CUSTOM:
            bad.append(f"no real class {c['name']}")
            continue
        obj = custom_factory(c["name"])
        own = own_methods(obj)
        if own["L"] != sorted(c["L"]) or own["N"] != sorted(c["N"]):
            bad.append(f"{c['name']}: decorators {own} vs catalogue L={c['L']} N={c['N']}")
        kids = [(a, type(m).__name__) for a, m in children(obj)]
        if kids != [(k["a"], k["c"]) for k in c["kids"]]:
            bad.append(f"{c['name']}: children {kids} vs catalogue {c['kids']}")
    return bad


# ------------------------------------------------------------------------------------------------ the observed world
def _unwrap(f):
    """(modules whose MutationContext the callable enters, object the innermost bound method belongs to)"""
    mods = []
    for _ in range(40):
        if hasattr(f, "__self__"):
            return mods, f.__self__
        code = getattr(f, "__code__", None)
        if code is None:
            return mods, None
        cells = {n: c.cell_contents for n, c in zip(code.co_freevars, f.__closure__ or ())}
        if "module" in cells and "method" in cells and "attribute" in cells:
            mods.append(cells["module"])
            f = cells["method"]
            continue
        return mods, None
    return mods, None


class World:
    def __init__(self, family: str):
        self.family = family
        self.roots: List[Any] = [None, None]
        self.known: Dict[int, dict] = {}      # id -> {obj, rc, hk}; objects are kept alive so ids are never reused
        self.occupants: Dict[Tuple[int, tuple], List[int]] = {}

    # ---- identity
    def cls_of(self, obj, path) -> str:
        return type(obj).__name__ if self.family == "custom" else real_cls(obj, path)

    def current(self) -> Dict[int, Tuple[int, tuple]]:
        cur = {}
        for t, r in enumerate(self.roots, start=1):
            if r is None:
                continue
            for path, obj in walk(r):
                cur[id(obj)] = (t, path)
                if isinstance(obj, EvolvableWrapper):
                    cur[id(obj.wrapped)] = (t, path)
        return cur

    def install(self):
        for i, (t, path) in list(self.current().items()):
            occ = self.occupants.setdefault((t, path), [])
            if i not in occ:
                occ.append(i)
        for t, r in enumerate(self.roots, start=1):
            if r is None:
                continue
            for path, obj in walk(r):
                objs = [obj] + ([obj.wrapped] if isinstance(obj, EvolvableWrapper) else [])
                for o in objs:
                    if id(o) in self.known:
                        continue
                    rec = {"obj": o, "rc": 0, "hk": 0}
                    self.known[id(o)] = rec
                    self._spy(o, rec)

    @staticmethod
    def _spy(o, rec):
        orig = o.recreate_network

        @functools.wraps(orig)
        def counted(*a, **k):
            rec["rc"] += 1
            return orig(*a, **k)

        o.recreate_network = counted

        def hook():
            rec["hk"] += 1

        o.register_mutation_hook(hook)

    def node(self, t: int, path):
        obj = self.roots[t - 1]
        for a in path:
            obj = obj._modules[a]
        return obj

    # ---- projection
    def observe(self) -> List[dict]:
        cur = self.current()
        out = []
        for t, r in enumerate(self.roots, start=1):
            if r is None:
                out.append({"live": False, "nodes": []})
                continue
            nodes = []
            for path, obj in walk(r):
                nodes.append(self._node(t, path, obj, cur))
            out.append({"live": True, "nodes": nodes})
        return out

    def _node(self, t, path, obj, cur) -> dict:
        n = {"p": list(path), "cls": self.cls_of(obj, path), "container": isinstance(obj, ModuleDict)}
        rawL = list(getattr(obj, "_layer_mutation_methods", []))
        rawN = list(getattr(obj, "_node_mutation_methods", []))
        n["rawL"] = [split(x) for x in dict.fromkeys(rawL)]
        n["rawN"] = [split(x) for x in dict.fromkeys(rawN)]
        regerr = ""
        try:
            L = list(obj.layer_mutation_methods)
            N = list(obj.node_mutation_methods)
            both = list(obj.mutation_methods)
        except BaseException as ex:      # RecursionError included
            L, N, both = [], [], []
            regerr = f"{type(ex).__name__}: {ex}"[:160]
        n["L"] = [split(x) for x in dict.fromkeys(L)]
        n["N"] = [split(x) for x in dict.fromkeys(N)]
        n["regerr"] = regerr
        n["dup"] = len(set(L)) != len(L) or len(set(N)) != len(N) or len(set(rawL)) != len(rawL) or len(set(rawN)) != len(rawN)
        n["union"] = sorted(both) == sorted(L + N)
        n["last"] = split(obj.last_mutation_attr)
        lm = obj.last_mutation
        if obj.last_mutation_attr is None:
            n["lastfn"] = True       # nothing is promised about last_mutation when no method is named
        else:
            try:
                n["lastfn"] = lm is not None and _unwrap(lm)[1] is _unwrap(getattr(obj, obj.last_mutation_attr))[1]
            except Exception:
                n["lastfn"] = False
        n["wrapped_off"] = True
        if isinstance(obj, EvolvableWrapper):
            try:
                n["wrapped_off"] = list(obj.wrapped.mutation_methods) == []
            except Exception:
                n["wrapped_off"] = False
        res = []
        for kind, names in (("L", L), ("N", N)):
            for name in dict.fromkeys(names):
                e = {"n": split(name), "reg": kind, "st": "lost", "o": [], "routed": False, "kind": "?"}
                try:
                    f = getattr(obj, name)
                    mods, owner = _unwrap(f)
                    mt = getattr(f, "_mutation_type", None)
                    e["kind"] = "L" if mt == MutationType.LAYER else "N" if mt == MutationType.NODE else "?"
                    want = tuple(path) + tuple(split(name)[:-1])
                    e["routed"] = isinstance(obj, ModuleDict) or (
                        len(mods) > 0 and mods[0] is obj and
                        all(id(x) in cur and cur[id(x)][0] == t and want[:len(cur[id(x)][1])] == cur[id(x)][1] for x in mods))
                    if owner is not None and id(owner) in cur:
                        ot, op = cur[id(owner)]
                        e["st"] = "cur" if ot == t else "foreign"
                        e["o"] = list(op)
                    elif owner is not None:
                        want = tuple(path) + tuple(split(name)[:-1])
                        e["st"] = "old" if id(owner) in self.occupants.get((t, want), []) else "detached"
                        e["o"] = list(want) if e["st"] == "old" else []
                except BaseException as ex:
                    e["st"] = "unresolvable"
                res.append(e)
        n["res"] = res
        return n

    def fingerprints(self) -> Dict[int, Any]:
        fp = {}
        for i, rec in self.known.items():
            o = rec["obj"]
            try:
                if hasattr(o, "fingerprint"):
                    fp[i] = o.fingerprint()
                else:
                    fp[i] = (str([tuple(p.shape) for p in o.parameters()]), str(getattr(o, "latent_dim", "")),
                             str(getattr(o, "hidden_size", "")), str(getattr(o, "channel_size", "")),
                             str(getattr(o, "kernel_size", "")), str(getattr(o, "num_blocks", "")),
                             str(getattr(o, "num_layers", "")))
            except Exception as ex:
                fp[i] = ("?", type(ex).__name__)
        return fp


class ScriptedRng:
    """what sample_mutation_method hands to rng.choice is recorded; the j-th option of positive probability is returned"""

    def __init__(self, j: int):
        self.j = j
        self.calls = []

    def choice(self, a, p=None, size=None, **kw):
        a = list(a)
        p = [float(x) for x in (p if p is not None else [1.0 / len(a)] * len(a))]
        self.calls.append((a, p, size))
        pos = [i for i, x in enumerate(p) if x > 0]
        pick = a[pos[self.j % len(pos)]] if pos else a[0]
        return np.array([pick]) if size is not None else pick


def frac(x: float) -> List[int]:
    f = Fraction(x).limit_denominator(4096)
    if abs(float(f) - x) > 1e-12:
        return [-1, 1]
    return [f.numerator, f.denominator]


KIND_ARG = {("L",): MutationType.LAYER, ("N",): MutationType.NODE, ("L", "N"): None}


class Runner:
    """Executes operations on a fresh real tree; one event per operation (plus the construct event)."""

    def __init__(self, family: str, make_root, cat: List[dict], sub: List[List[str]], seed: int = 0, factory=None,
                 desc: str = "", rootname: str = ""):
        np.random.seed(seed)
        torch.manual_seed(seed)
        self.seed, self.factory = seed, factory
        self.w = w = World(family)
        self.ev: List[dict] = []
        self.actions: List[dict] = []
        exc = ""
        try:
            w.roots[0] = make_root()
        except Exception as ex:
            exc = f"{type(ex).__name__}: {ex}"[:200]
        w.install()
        root = w.roots[0]
        e0 = {"op": "construct", "t": 1, "p": [], "c": w.cls_of(root, ()) if root is not None else "?", "exc": exc,
              "exct": exc.split(":")[0],
              "post": w.observe(), "rc": [], "lost": 0, "hk": [], "bodies": [], "changed": []}
        self.ev.append(e0)
        self.dead = bool(exc)
        self.cfg = {"family": family, "root": rootname or e0["c"], "truth": family == "custom", "cat": cat, "sub": sub,
                    "desc": desc, "seed": seed}

    def step(self, a: dict) -> dict:
        w = self.w
        e = dict(a)
        e.update({"exc": "", "exct": "", "rc": [], "lost": 0, "hk": [], "bodies": [], "changed": []})
        before = {i: (r["rc"], r["hk"]) for i, r in w.known.items()}
        fp0 = w.fingerprints() if a["op"] == "calldis" else {}
        HOPS[0] = 0
        BODIES.clear()
        try:
            op = a["op"]
            if op in ("call", "calldis"):
                node = w.node(a["t"], a["p"])
                HOPS[0] = int(a.get("h", 0))
                fn = getattr(node, ".".join(a["m"]))
                fn()
            elif op == "sample":
                node = w.node(a["t"], a["p"])
                rng = ScriptedRng(int(a.get("j", 0)))
                e.update({"names": [], "probs": [], "ret": [], "draws": []})
                ret = node.sample_mutation_method(a["pl"] / 2, rng)
                names, probs, _ = rng.calls[-1]
                e["names"] = [split(x) for x in names]
                e["probs"] = [frac(x) for x in probs]
                e["ret"] = split(str(ret))
                g = np.random.default_rng(self.seed * 7919 + len(self.ev))
                e["draws"] = [split(str(node.sample_mutation_method(a["pl"] / 2, g))) for _ in range(3)]
            elif op == "disable":
                w.node(a["t"], a["p"]).disable_mutations(KIND_ARG[tuple(sorted(a["ks"]))])
            elif op == "filter":
                w.node(a["t"], a["p"]).filter_mutation_methods(a["s"])
            elif op == "assign":
                node = w.node(a["t"], a["p"])
                setattr(node, a["a"], self.factory(a["c"], node))
            elif op == "clone":
                w.roots[1] = w.roots[0].clone()
            else:
                raise ValueError(op)
        except BaseException as ex:
            if isinstance(ex, (KeyboardInterrupt, SystemExit)):
                raise
            e["exc"] = f"{type(ex).__name__}: {ex}"[:200]
            e["exct"] = type(ex).__name__
        HOPS[0] = 0
        cur = w.current()
        # recreate_network / hook calls of this step, attributed to the node the object is now
        rc: Dict[Tuple[int, tuple], int] = {}
        hk: Dict[Tuple[int, tuple], int] = {}
        for i, (r0, h0) in before.items():
            rec = w.known[i]
            dr, dh = rec["rc"] - r0, rec["hk"] - h0
            if dr:
                if i in cur:
                    rc[cur[i]] = rc.get(cur[i], 0) + dr
                else:
                    e["lost"] += dr
            if dh and i in cur:
                hk[cur[i]] = hk.get(cur[i], 0) + dh
        e["rc"] = [[t, list(p), d] for (t, p), d in sorted(rc.items())]
        e["hk"] = [[t, list(p), d] for (t, p), d in sorted(hk.items())]
        e["bodies"] = [[cur[id(o)][0], list(cur[id(o)][1]), m] if id(o) in cur else [0, [], m] for o, m in BODIES]
        if a["op"] == "calldis":
            fp1 = w.fingerprints()
            e["changed"] = [[cur[i][0], list(cur[i][1])] if i in cur else [0, []] for i in fp0 if fp1.get(i) != fp0[i]]
        w.install()
        e["post"] = w.observe()
        self.ev.append(e)
        self.actions.append(a)
        BODIES.clear()
        return e

    def trace(self) -> dict:
        return {"cfg": dict(self.cfg), "ev": list(self.ev), "actions": list(self.actions)}


def run(family: str, make_root, cat: List[dict], sub: List[List[str]], actions: List[dict], seed: int = 0,
        factory=None, desc: str = "", rootname: str = "") -> dict:
    r = Runner(family, make_root, cat, sub, seed, factory, desc, rootname)
    for a in actions:
        if r.dead:
            break
        r.step(a)
    return r.trace()


# ------------------------------------------------------------------------------------------------ real objects
def real_makers():
    """name -> constructor of a real AgileRL module tree"""
    from gymnasium import spaces
    from agilerl.modules.cnn import EvolvableCNN
    from agilerl.modules.mlp import EvolvableMLP
    from agilerl.modules.multi_input import EvolvableMultiInput
    from agilerl.networks.actors import DeterministicActor, StochasticActor
    from agilerl.networks.q_networks import ContinuousQNetwork, QNetwork, RainbowQNetwork
    from agilerl.networks.value_networks import ValueNetwork

    vec = spaces.Box(-1, 1, (4,))
    img = spaces.Box(0, 1, (3, 16, 16))
    dct = spaces.Dict({"image": img, "vector": vec})
    dis = spaces.Discrete(2)
    box = spaces.Box(-1, 1, (2,))
    cnn_cfg = {"channel_size": [8], "kernel_size": [3], "stride_size": [1]}
    mi_cfg = {"cnn_config": dict(cnn_cfg, output_activation="ReLU"), "vector_space_mlp": True,
              "mlp_config": {"hidden_size": [8], "output_activation": "ReLU"}}
    return {
        "QNetwork": lambda: QNetwork(vec, dis),
        "QNetwork1": lambda: QNetwork(vec, dis, encoder_config={"hidden_size": [8, 8], "max_hidden_layers": 2, "min_mlp_nodes": 4},
                                      head_config={"hidden_size": [8, 8], "max_hidden_layers": 2, "min_mlp_nodes": 4}),
        "ValueNetwork": lambda: ValueNetwork(vec),
        "DeterministicActor": lambda: DeterministicActor(vec, box),
        "StochasticActor": lambda: StochasticActor(vec, box),
        "StochasticActorD": lambda: StochasticActor(vec, dis),
        "ContinuousQNetwork": lambda: ContinuousQNetwork(vec, box),
        "RainbowQNetwork": lambda: RainbowQNetwork(vec, dis, support=torch.linspace(-1, 1, 5), num_atoms=5),
        "QNetworkCNN": lambda: QNetwork(img, dis, encoder_config=copy.deepcopy(cnn_cfg)),
        "QNetworkDict": lambda: QNetwork(dct, dis, encoder_config=copy.deepcopy(mi_cfg)),
        "StochasticActorDict": lambda: StochasticActor(dct, box, encoder_config=copy.deepcopy(mi_cfg)),
        "EvolvableMultiInput": lambda: EvolvableMultiInput(dct, 8, **copy.deepcopy(mi_cfg)),
        "EvolvableMLP": lambda: EvolvableMLP(4, 2, [8]),
        "EvolvableCNN": lambda: EvolvableCNN((3, 16, 16), 4, [8], [3], [1]),
    }


def real_factory(cname: str, node):
    """a new module for `node.<attr> = ...`: the head of a network, built as the network itself builds it"""
    if cname.endswith("@head_net"):
        return node.create_mlp(num_inputs=node.latent_dim, num_outputs=getattr(node, "num_actions", getattr(node, "num_outputs", 1)),
                               name="value", net_config=node.head_net.net_config)
    raise ValueError(cname)


def substrings(cat: List[dict], strs: List[str]) -> List[List[str]]:
    atoms = set()
    for c in cat:
        atoms.update(c["L"])
        atoms.update(c["N"])
        atoms.update(k["a"] for k in c["kids"])
    atoms.update(["aux"])
    return sorted([s, a] for s in strs for a in atoms if s in a)


# ------------------------------------------------------------------------------------------------ seeded random walks
def enabled_actions(obs: List[dict], cat: List[dict], rng: random.Random, family: str, strs: List[str], assign: List[dict],
                    allow_clone: bool) -> List[dict]:
    """operations applicable in the observed state (computed from the OBSERVED registries)"""
    by = {c["name"]: c for c in cat}
    acts = []
    for t, tr in enumerate(obs, start=1):
        if not tr["live"]:
            continue
        nodes = {tuple(n["p"]): n for n in tr["nodes"]}
        for p, n in nodes.items():
            if n["regerr"]:
                continue
            reg = n["L"] + n["N"]
            if not n["container"]:
                for m in reg:
                    hs = [0, 1, 2] if family == "custom" else [0]
                    acts.append({"op": "call", "t": t, "p": list(p), "m": m, "h": rng.choice(hs)})
                # known but not offered
                for q, nq in nodes.items():
                    if q[:len(p)] != p or nq["cls"] not in by:
                        continue
                    for x in by[nq["cls"]]["L"] + by[nq["cls"]]["N"]:
                        m = list(q[len(p):]) + [x]
                        if m not in reg:
                            acts.append({"op": "calldis", "t": t, "p": list(p), "m": m})
                for pl in (0, 1, 2):
                    acts.append({"op": "sample", "t": t, "p": list(p), "pl": pl, "j": rng.randrange(8)})
                for s in strs:
                    acts.append({"op": "filter", "t": t, "p": list(p), "s": s})
            for ks in (["L"], ["N"], ["L", "N"]):
                acts.append({"op": "disable", "t": t, "p": list(p), "ks": ks})
        for sp in assign:
            acts.append({"op": "assign", "t": t, "p": [], "a": sp["a"], "c": sp["c"]})
    if allow_clone and obs[0]["live"] and not obs[1]["live"]:
        acts.append({"op": "clone", "t": 1})
    return acts


WEIGHTS = {"call": 6, "calldis": 1, "sample": 1, "filter": 1, "disable": 2, "assign": 2, "clone": 2}


def random_walk(family: str, rootname: str, make_root, cat, strs, assign, depth: int, seed: int, factory) -> dict:
    """a seeded walk: each operation is drawn among those applicable in the state observed so far"""
    rng = random.Random(seed)
    sub = substrings(cat, strs)
    pristine = True
    r = Runner(family, make_root, cat, sub, seed, factory, desc=f"walk:{rootname}:seed={seed}", rootname=rootname)
    for _ in range(depth):
        if r.dead:
            break
        last = r.ev[-1]
        if last["exc"] and last["op"] not in ("calldis", "sample"):
            break
        acts = enabled_actions(last["post"], cat, rng, family, strs, assign, allow_clone=pristine)
        if not acts:
            break
        ops = sorted({a["op"] for a in acts})
        op = rng.choices(ops, weights=[WEIGHTS[o] for o in ops])[0]
        a = rng.choice([x for x in acts if x["op"] == op])
        if a["op"] == "assign":
            pristine = False
        r.step(a)
    return r.trace()


# ------------------------------------------------------------------------------------------------ validation by TLC
TRACE_CFG = """SPECIFICATION TSpec
CONSTANTS
  MCCat <- NoCat
  MCSub <- NoSet
  RootClasses <- NoSet
  FilterStrs <- NoSet
  AssignSpecs <- NoSet
  MaxSteps = 0
  DirectCalls = TRUE
  Diag = @DIAG@
CHECK_DEADLOCK FALSE
"""
KEEP_EV = ("op", "t", "p", "m", "h", "c", "a", "s", "ks", "pl", "j", "exc", "exct", "post", "rc", "lost", "hk", "bodies", "changed",
           "names", "probs", "ret", "draws")


def judge(traces: List[dict], chunk: int = 150, workers: int = 6, timeout: int = 1500):
    """MutReg_Trace over all traces (parallel TLC runs).  Returns (per trace: per event index (1-based) the list of failed
    clauses, or None when TLC did not get through the event), stats."""
    from concurrent.futures import ThreadPoolExecutor
    from .. import trace as trace_mod
    from ..tlc import TLCError

    slim = [{"cfg": {k: t["cfg"][k] for k in ("family", "root", "truth", "cat", "sub")},
             "ev": [{k: e[k] for k in KEEP_EV if k in e} for e in t["ev"]]} for t in traces]
    parts = [list(range(i, min(i + chunk, len(slim)))) for i in range(0, len(slim), chunk)]

    def one(idx):
        r = trace_mod._run("MutReg_Trace", TRACE_CFG, [slim[i] for i in idx], False, timeout, False)
        if not r.ok:
            raise TLCError(f"MutReg_Trace run failed: {r.violation[:2000]}")
        fails: Dict[Tuple[int, int], List[str]] = {}
        for p in r.tagged.get("FAILCLAUSE", []):
            a, b, nm = [x.strip() for x in str(p).split(",", 2)]
            fails.setdefault((int(a), int(b)), [])
            nm = nm.strip().strip('"')
            if nm not in fails[(int(a), int(b))]:
                fails[(int(a), int(b))].append(nm)
        judged = {tuple(int(x) for x in str(p).split(",")) for p in r.tagged.get("JUDGED", [])}
        acc = {int(str(p).strip()) for p in r.tagged.get("ACCEPT", [])}
        return fails, judged, acc, r

    with ThreadPoolExecutor(max_workers=max(1, min(workers, len(parts)))) as ex:
        res = list(ex.map(one, parts))
    out = [None] * len(traces)
    stats = {"distinct": 0, "generated": 0, "runs": len(parts)}
    for idx, (fails, judged, acc, r) in zip(parts, res):
        stats["distinct"] += r.distinct
        stats["generated"] += r.generated
        for k, i in enumerate(idx, start=1):
            n = len(traces[i]["ev"])
            out[i] = [fails.get((k, j), []) if (k, j) in judged else None for j in range(1, n + 1)]
            if k not in acc:
                out[i] = [x if x is not None else None for x in out[i]]
    return out, stats


# ------------------------------------------------------------------------------------------------ TLC relation -> real runs
def canon_state(obs: List[dict]) -> List[dict]:
    """public projection of an observation / a dumped state, canonically ordered"""
    out = []
    for tr in obs:
        nodes = sorted(({"p": list(n["p"]), "cls": n["cls"], "L": sorted(map(list, n["L"])), "N": sorted(map(list, n["N"])),
                         "last": list(n["last"])} for n in tr["nodes"]), key=lambda n: n["p"])
        out.append({"live": bool(tr["live"]), "nodes": nodes})
    return out


def load_relation(cfg: str):
    """(Relation over canonical states, catalogue, substring oracle, TLC result) of a MutReg dump configuration"""
    from .. import tlc
    from ..relation import Relation

    r = tlc.dump("MutReg_MC", cfg)
    seen, edges = set(), []
    for e in r.tagged["TR"]:
        e = {"from": canon_state(e["from"]), "act": e["act"], "out": e["out"], "to": canon_state(e["to"])}
        k = json.dumps(e, sort_keys=True)
        if k not in seen:
            seen.add(k)
            edges.append(e)
    inits = [canon_state(i["obs"]) for i in r.tagged["INIT"]]
    c = r.tagged["CATALOG"][0]
    return Relation(edges, inits), c["cat"], [list(x) for x in c["sub"]], r


def act_of_edge(a: dict, k: int) -> dict:
    a = dict(a)
    if a["op"] == "sample":
        a = {"op": "sample", "t": a["t"], "p": a["p"], "pl": a["pl"], "j": k}
    if a["op"] == "disable":
        a["ks"] = sorted(a["ks"])
    if a["op"] == "calldis":
        a.pop("raises", None)
    return a


def replay_custom(rel, cat, sub, paths, seed: int):
    """every path on a fresh real custom tree; a path is abandoned at the first step whose real outcome leaves TLC's path
    (that step is judged and reported by TLC; what follows would not be the dumped path any more)"""
    traces, stats = [], {"edges_run": set(), "diverged": 0}
    for pi, path in enumerate(paths):
        first = rel.edges[path[0]]
        rootcls = [n for n in first["from"][0]["nodes"] if n["p"] == []][0]["cls"]
        r = Runner("custom", lambda: custom_factory(rootcls), cat, sub, seed + pi, lambda c, node: custom_factory(c),
                   desc=f"path:{pi}", rootname=rootcls)
        if canon_state(r.ev[0]["post"]) != first["from"] and len(r.ev) == 1:
            pass    # judged by TLC (construct clause)
        for k, n in enumerate(path):
            e = rel.edges[n]
            a = act_of_edge(e["act"], pi + k)
            if a["op"] == "calldis" and e["act"].get("raises"):
                # the two outcomes of one call: executed once (the edge with raises = FALSE stands for both)
                pass
            ev = r.step(a)
            stats["edges_run"].add(n)
            got = canon_state(ev["post"])
            ev["tlc_to"] = got == e["to"] or (a["op"] == "calldis" and got == e["from"])
            if not ev["tlc_to"]:
                stats["diverged"] += 1
                break
        traces.append(r.trace())
    stats["edges_run"] = len(stats["edges_run"])
    return traces, stats


NET_MAKERS = ["QNetwork", "ValueNetwork", "DeterministicActor", "StochasticActor", "ContinuousQNetwork", "RainbowQNetwork", "QNetwork1"]
REAL_STRS = ["latent", "node", "layer"]


def real_setup(name: str):
    mk = real_makers()[name]
    root = mk()
    cat = real_catalog(root)
    plain_head = "head_net" in root._modules and not isinstance(root._modules["head_net"], EvolvableWrapper) \
        and type(root._modules["head_net"]).__name__ == "EvolvableMLP"
    assign = [{"a": "head_net", "c": real_cls(root._modules["head_net"], ("head_net",))}] if plain_head else []
    return mk, cat, substrings(cat, REAL_STRS), assign


def real_assign_factory(cname: str, node):
    from agilerl.modules.mlp import EvolvableMLP
    return EvolvableMLP(**node.head_net.init_dict)


def replay_net(rel, paths, seed: int, every_maker: bool):
    """the action sequences of the dumped `net' relation on real networks of that shape (encoder MLP + head MLP / wrapped MLP)"""
    setups = {n: real_setup(n) for n in NET_MAKERS}
    traces = []
    for pi, path in enumerate(paths):
        acts, seen = [], set()
        for k, n in enumerate(path):
            a = act_of_edge(rel.edges[n]["act"], pi + k)
            if a["op"] == "call":
                a["h"] = 0
            acts.append(a)
        names = NET_MAKERS if every_maker else [NET_MAKERS[pi % len(NET_MAKERS)]]
        for name in names:
            mk, cat, sub, assign = setups[name]
            r = Runner("real", mk, cat, sub, seed + pi, real_assign_factory, desc=f"netpath:{pi}:{name}", rootname=name)
            for a in acts:
                a = dict(a)
                if a["op"] == "assign":
                    if not assign:
                        break
                    a["c"] = assign[0]["c"]
                if r.dead:
                    break
                last = r.ev[-1]
                if last["exc"] and last["op"] not in ("calldis", "sample"):
                    break
                # only operations applicable in the OBSERVED state (the real object may have left TLC's path)
                node = [n for n in last["post"][a["t"] - 1]["nodes"] if n["p"] == a.get("p", [])] if a["op"] != "clone" else [1]
                if not node:
                    break
                if a["op"] == "call" and a["m"] not in node[0]["L"] + node[0]["N"]:
                    break
                if a["op"] == "calldis" and a["m"] in node[0]["L"] + node[0]["N"]:
                    break
                if a["op"] == "clone" and last["post"][1]["live"]:
                    break
                r.step(a)
            traces.append(r.trace())
    return traces


# ------------------------------------------------------------------------------------------------ verdicts -> violations
CLAUSE_TAGS = [
    ("the class of every module", "class-unknown"),
    ("the registry of every module can be read", "registry-unreadable"),
    ("the public registry is the module's own list", "registry-not-raw-filtered"),
    ("no name is registered twice", "duplicate-names"),
    ("mutation_methods = layer_mutation_methods", "union"),
    ("no name is offered both", "kinds-overlap"),
    ("last_mutation is the method", "last-mutation-fn"),
    ("a wrapped module offers nothing", "wrapped-still-offers"),
    ("every registered name resolves to the module CURRENTLY", "stale-after-replace"),
    ("every registered name resolves (getattr)", "unresolvable"),
    ("every registered name resolves to the module its path names", "wrong-owner"),
    ("every registered name is called through the module's own MutationContext", "unrouted"),
    ("every name is registered under the kind", "wrong-kind"),
    ("the tree has the modules", "shape"),
    ("the registry of every module after the operation", "registry"),
    ("last_mutation_attr of every module the call went through", "last-attr"),
    ("exactly the module owning the applied method is recreated", "recreate"),
    ("the mutation hook of every module", "hook"),
    ("the other tree", "other-tree-affected"),
    ("the operation returns without raising", "raises"),
    ("the recorded operation is applicable", "HARNESS"),
    ("a new module starts without a clone", "construct-with-clone"),
    ("(ground truth) at most one method body", "truth-bodies"),
    ("(ground truth) last_mutation_attr names the body", "truth-last-attr"),
    ("(ground truth) the module whose body ran", "truth-recreate"),
    ("calling a method the module does not offer either fails", "disabled-call-exception"),
    ("a method that is not offered applies nothing", "disabled-call-applies"),
    ("sampling changes nothing", "sample-changes-state"),
    ("sample_mutation_method raises ValueError", "sample-empty-no-valueerror"),
    ("the names sampled from are exactly", "sample-support"),
    ("layer methods share new_layer_prob", "sample-law"),
    ("the sampled name is registered", "sample-unregistered"),
    ("new_layer_prob = 1 yields", "sample-kind"),
    ("the original is not affected by clone", "clone-affects-original"),
]


def tag_of(clause: str) -> str:
    for pre, tag in CLAUSE_TAGS:
        if clause.startswith(pre):
            return tag
    return "clause:" + clause[:40]


def _regs(obs_tree) -> Dict[tuple, set]:
    return {tuple(n["p"]): {".".join(m) for m in n["L"] + n["N"]} for n in obs_tree["nodes"]}


def diff_text(pre: List[dict], post: List[dict], ev: dict) -> Tuple[str, str]:
    """(class, text) of how the public registries changed over the event (presentation only)"""
    if ev["op"] == "clone":
        a, b = _regs(post[0]), _regs(post[1])
    else:
        t = ev.get("t", 1) - 1
        a, b = _regs(pre[t]), _regs(post[t])
    lost, gained = [], []
    for p in sorted(set(a) | set(b)):
        for m in sorted(a.get(p, set()) - b.get(p, set())):
            lost.append(".".join(p) + ":" + m)
        for m in sorted(b.get(p, set()) - a.get(p, set())):
            gained.append(".".join(p) + ":" + m)
    cls = "lost+gained" if lost and gained else "lost" if lost else "gained" if gained else "same"
    return cls, f"names lost {lost[:8]}, gained {gained[:8]}"


def op_detail(tr: dict, k: int) -> str:
    ev = tr["ev"][k]
    pre = tr["ev"][k - 1]["post"] if k > 0 else None
    by = {c["name"]: c for c in tr["cfg"]["cat"]}
    op = ev["op"]
    where = "root" if not ev.get("p") else "nested"
    if op in ("call", "calldis"):
        nodes = {tuple(n["p"]): n for n in pre[ev["t"] - 1]["nodes"]}
        q = tuple(ev["p"]) + tuple(ev["m"][:-1])
        c = by.get(nodes[q]["cls"]) if q in nodes else None
        kind = "own" if len(ev["m"]) == 1 else "forwarded"
        return f"{kind}@{where}" + ("+rebuild" if c and c["rebuild"] else "") + (f"+fallback{ev.get('h')}" if ev.get("h") else "")
    if op == "assign":
        had = any(tuple(n["p"]) == tuple(ev["p"]) + (ev["a"],) for n in pre[ev["t"] - 1]["nodes"])
        return "replace" if had else "attach"
    if op == "disable":
        nodes = pre[ev["t"] - 1]["nodes"]
        wr = any(n["cls"].startswith(("Wrap", "EvolvableDistribution")) and tuple(n["p"])[:len(ev["p"])] == tuple(ev["p"]) for n in nodes)
        return "".join(ev["ks"]) + "@" + where + ("+wrapper" if wr else "")
    if op == "filter":
        return ev["s"] + "@" + where
    if op == "sample":
        return f"p{ev['pl']}/2@{where}"
    if op == "clone":
        return "clone"
    return op


def signatures(tr: dict, k: int, clauses: List[str]) -> List[Tuple[str, str]]:
    """(signature, failing clause) per failed clause of event k"""
    ev = tr["ev"][k]
    cfg = tr["cfg"]
    det = op_detail(tr, k)
    out = []
    pre = tr["ev"][k - 1]["post"] if k > 0 else [{"live": False, "nodes": []}] * 2
    dcls, _ = diff_text(pre, ev["post"], ev)
    for c in clauses:
        tag = tag_of(c)
        if tag == "raises":
            tag = f"raises[{ev['exct']}]"
        if tag == "registry":
            tag = "registry:" + ("reenabled-after-replace" if (ev["op"] == "call" and dcls == "gained") else
                                 ("clone-differs" if _regs(ev["post"][0]).get(()) != _regs(ev["post"][1]).get(()) else "clone-differs-in-nested-modules-only")
                                 if ev["op"] == "clone" else "names-" + dcls)
        out.append((f"mutreg:{cfg['family']}:{cfg['root']}:{ev['op']}:{det}:{tag}", c))
    return out


def describe(tr: dict, k: int, clause: str) -> str:
    ev = tr["ev"][k]
    pre = tr["ev"][k - 1]["post"] if k > 0 else [{"live": False, "nodes": []}] * 2
    _, dt = diff_text(pre, ev["post"], ev)
    hist = [{x: a[x] for x in a if x not in ("j",)} for a in tr.get("actions", [])[:max(0, k - 1)]]
    arg = {x: ev[x] for x in ("t", "p", "m", "h", "a", "c", "s", "ks", "pl") if x in ev}
    bad = []
    for t, o in enumerate(ev["post"], start=1):
        for n in o["nodes"]:
            for e in n["res"]:
                if e["st"] != "cur" or not e["routed"]:
                    bad.append(f"tree{t}:{'.'.join(n['p']) or '<root>'}.{'.'.join(e['n'])}->{e['st']}{'' if e['routed'] else '/unrouted'}")
    return (f"{tr['cfg']['family']} tree {tr['cfg']['root']}: after history {json.dumps(hist)} the operation {ev['op']} {json.dumps(arg)} "
            f"violates: {clause}. Observed: exc={ev['exc']!r}; {dt}; recreate_network calls {ev['rc']} (+{ev['lost']} on replaced objects); "
            f"last_mutation_attr {[('.'.join(n['p']) or '<root>', '.'.join(n['last']) or None) for n in ev['post'][ev.get('t', 1) - 1]['nodes']]}; "
            f"bindings not current/routed: {bad[:6]}")
