"""Identified data (DESIGN.md section 3): every value fed to real code is an injective encoding of a
small integer id, separately per field, so that a projection can decode each field on its own and
"the fields of a row still belong together" becomes "all decoded ids of the row agree".

value = id * 64 + code        (float32-exact for id < 2**17)
"""
from __future__ import annotations

import numpy as np

OBS_KINDS = ("vector", "image", "dict", "tuple")
F_OBS, F_ACT, F_REW, F_NOBS = 1, 2, 3, 4        # field codes; members of dict/tuple add 8*member
STRIDE = 64


def val(i: int, code: int) -> float:
    return float(i * STRIDE + code)


def make_obs(kind: str, i: int, field: int, agent: int = 0):
    """An observation of the given kind, all of whose elements encode (id=i, field, member, agent)."""
    code = field + 16 * agent
    if kind == "vector":
        return np.full((3,), val(i, code), dtype=np.float32)
    if kind == "image":
        return np.full((1, 3, 3), val(i, code), dtype=np.float32)
    if kind == "dict":
        return {"vec": np.full((2,), val(i, code), dtype=np.float32),
                "img": np.full((1, 2, 2), val(i, code + 8), dtype=np.float32)}
    if kind == "tuple":
        return (np.full((2,), val(i, code), dtype=np.float32),
                np.full((1, 2, 2), val(i, code + 8), dtype=np.float32))
    raise ValueError(kind)


def stack_obs(kind: str, ids, field: int, agent: int = 0):
    obs = [make_obs(kind, i, field, agent) for i in ids]
    if kind in ("vector", "image"):
        return np.stack(obs)
    if kind == "dict":
        return {k: np.stack([o[k] for o in obs]) for k in obs[0]}
    return tuple(np.stack([o[j] for o in obs]) for j in range(len(obs[0])))


def decode_array(a, code: int):
    """Return the id encoded in array `a` for field `code`, or None if the array is not uniform /
    does not carry that code."""
    a = np.asarray(a, dtype=np.float64).reshape(-1)
    if a.size == 0:
        return None
    v = a[0]
    if not np.all(a == v):
        return None
    iv = int(round(v))
    if iv != v or iv % STRIDE != code:
        return None
    return iv // STRIDE


def decode_obs(kind: str, o, field: int, agent: int = 0):
    """Decode one (unbatched) observation; members must agree. `o` may be a mapping with keys
    vec/img, tuple_obs_0/1, or a sequence."""
    code = field + 16 * agent
    if kind in ("vector", "image"):
        return decode_array(o, code)
    if kind == "dict":
        parts = [decode_array(o["vec"], code), decode_array(o["img"], code + 8)]
    else:
        try:
            parts = [decode_array(o["tuple_obs_0"], code), decode_array(o["tuple_obs_1"], code + 8)]
        except (KeyError, TypeError, IndexError):
            parts = [decode_array(o[0], code), decode_array(o[1], code + 8)]
    if parts[0] is None or parts[0] != parts[1]:
        return None
    return parts[0]
