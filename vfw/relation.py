"""M2: a transition relation dumped by TLC (PrintT(<<"TR", ToJson([from|->, act|->, to|->])>>)) and
path covers over it (every edge appears in at least one path that starts in an initial state)."""
from __future__ import annotations

import json
from collections import defaultdict, deque
from typing import Dict, List, Tuple


def key(x) -> str:
    return json.dumps(x, sort_keys=True, separators=(",", ":"))


class Relation:
    def __init__(self, edges: List[dict], inits: List[dict] | None = None):
        self.edges = edges
        self.out: Dict[str, List[int]] = defaultdict(list)
        self.state: Dict[str, object] = {}
        for n, e in enumerate(edges):
            kf, kt = key(e["from"]), key(e["to"])
            self.state[kf] = e["from"]
            self.state[kt] = e["to"]
            self.out[kf].append(n)
        if inits is None:
            targets = {key(e["to"]) for e in edges}
            inits_k = [k for k in self.state if k not in targets]
        else:
            inits_k = [key(i) for i in inits]
        self.inits = inits_k

    def successors(self, s, act) -> List[object]:
        ka = key(act)
        return [self.edges[n]["to"] for n in self.out.get(key(s), []) if key(self.edges[n]["act"]) == ka]

    def cover_paths(self, max_extra: int = 12) -> List[List[int]]:
        """Paths (lists of edge numbers) from initial states covering every reachable edge.
        BFS tree to reach a state, then greedily follow uncovered edges."""
        parent: Dict[str, Tuple[str, int] | None] = {}
        q = deque()
        for k in self.inits:
            parent[k] = None
            q.append(k)
        order = []
        while q:
            k = q.popleft()
            order.append(k)
            for n in self.out.get(k, []):
                kt = key(self.edges[n]["to"])
                if kt not in parent:
                    parent[kt] = (k, n)
                    q.append(kt)

        def prefix(k):
            p = []
            while parent[k] is not None:
                k, n = parent[k]
                p.append(n)
            return p[::-1]

        covered = set()
        paths = []
        for k in order:
            while True:
                todo = [n for n in self.out.get(k, []) if n not in covered]
                if not todo:
                    break
                path = prefix(k)
                cur = k
                extra = 0
                while extra < max_extra:
                    cand = [n for n in self.out.get(cur, []) if n not in covered]
                    if not cand:
                        break
                    n = cand[0]
                    covered.add(n)
                    path.append(n)
                    cur = key(self.edges[n]["to"])
                    extra += 1
                paths.append(path)
        return paths
