"""Tiny real AgileRL agents of every algorithm, deterministic learn batches and probe observations.
Shared by the life-cycle checks (C01, C02, C05, C06, C07 and the protocol parts of C08/C19/C20)."""
from __future__ import annotations

import copy
import random

import numpy as np
import torch
from gymnasium import spaces
from tensordict import TensorDict

SINGLE = ["DQN", "RainbowDQN", "CQN", "DDPG", "TD3", "PPO", "NeuralUCB", "NeuralTS"]
MULTI = ["MADDPG", "MATD3", "IPPO"]
ALGOS = SINGLE + MULTI
OBS_FAMILIES = ["vector", "image", "dict", "discrete"]

NET = {"encoder_config": {"hidden_size": [16]}, "head_config": {"hidden_size": [16]}}


def seed_all(s: int):
    random.seed(s)
    np.random.seed(s % (2 ** 32))
    torch.manual_seed(s)


def obs_space(family: str):
    if family in ("vector", "deep"):
        return spaces.Box(-1.0, 1.0, (4,), dtype=np.float32)
    if family == "image":
        return spaces.Box(0.0, 1.0, (3, 16, 16), dtype=np.float32)
    if family == "dict":
        return spaces.Dict({"vec": spaces.Box(-1.0, 1.0, (3,), dtype=np.float32), "num": spaces.Discrete(3)})
    if family == "boxdict":
        return spaces.Dict({"a": spaces.Box(-1.0, 1.0, (3,), dtype=np.float32), "b": spaces.Box(-2.0, 2.0, (2,), dtype=np.float32)})
    if family == "tuple":
        return spaces.Tuple((spaces.Box(-1.0, 1.0, (3,), dtype=np.float32), spaces.Discrete(3)))
    if family == "discrete":
        return spaces.Discrete(5)
    raise ValueError(family)


def net_config(family: str):
    if family == "image":
        return {"encoder_config": {"channel_size": [4], "kernel_size": [3], "stride_size": [2]}, "head_config": {"hidden_size": [16]}}
    if family in ("dict", "tuple", "boxdict"):
        return {"encoder_config": {"latent_dim": 8, "mlp_config": {"hidden_size": [16]}}, "head_config": {"hidden_size": [16]}}
    if family == "deep":       # networks at the maximum number of layers (2): add_layer falls back to add_node
        pin = {"hidden_size": [16, 16], "min_hidden_layers": 1, "max_hidden_layers": 2}
        return {"encoder_config": copy.deepcopy(pin), "head_config": copy.deepcopy(pin)}
    return copy.deepcopy(NET)


def hp_config(algo: str, only_lr: bool = False):
    from agilerl.algorithms.core.registry import HyperparameterConfig, RLParameter
    if only_lr:          # learning rates only: an rl_hp mutation then always changes a learning rate
        if algo in ("DDPG", "TD3", "MADDPG", "MATD3"):
            return HyperparameterConfig(lr_actor=RLParameter(min=1e-4, max=1e-2), lr_critic=RLParameter(min=1e-4, max=1e-2))
        return HyperparameterConfig(lr=RLParameter(min=1e-4, max=1e-2))
    if algo in ("DDPG", "TD3", "MADDPG", "MATD3"):
        return HyperparameterConfig(lr_actor=RLParameter(min=1e-4, max=1e-2), lr_critic=RLParameter(min=1e-4, max=1e-2),
                                    batch_size=RLParameter(min=4, max=16, dtype=int))
    return HyperparameterConfig(lr=RLParameter(min=1e-4, max=1e-2), batch_size=RLParameter(min=4, max=16, dtype=int),
                                learn_step=RLParameter(min=1, max=8, dtype=int, grow_factor=1.5, shrink_factor=0.75))


def make_agent(algo: str, family: str = "vector", seed: int = 0, index: int = 0, hp=None, **kw):
    """A tiny agent. PPO/DDPG/TD3 are built with share_encoders=False (Python 3.12 Protocol issue, DESIGN 6-P)."""
    seed_all(seed)
    osp = obs_space(family)
    nc = net_config(family)
    hp = hp if hp is not None else hp_config(algo)
    pf = kw.pop("policy_freq", 1)
    lr, lr_actor, lr_critic = kw.pop("lr", 1e-3), kw.pop("lr_actor", 1e-3), kw.pop("lr_critic", 2e-3)
    common = dict(index=index, hp_config=hp, net_config=nc)
    common.update(kw)
    if algo == "DQN":
        from agilerl.algorithms.dqn import DQN
        return DQN(osp, spaces.Discrete(3), batch_size=8, lr=lr, tau=0.5, **common)
    if algo == "RainbowDQN":
        from agilerl.algorithms.dqn_rainbow import RainbowDQN
        return RainbowDQN(osp, spaces.Discrete(3), batch_size=8, lr=lr, tau=0.5, num_atoms=5, v_min=-2, v_max=2, **common)
    if algo == "CQN":
        from agilerl.algorithms.cqn import CQN
        return CQN(osp, spaces.Discrete(3), batch_size=8, lr=lr, tau=0.5, **common)
    if algo == "DDPG":
        from agilerl.algorithms.ddpg import DDPG
        return DDPG(osp, spaces.Box(-1.0, 1.0, (2,), dtype=np.float32), batch_size=8, lr_actor=lr_actor, lr_critic=lr_critic, tau=0.5,
                    policy_freq=1, share_encoders=False, **common)
    if algo == "TD3":
        from agilerl.algorithms.td3 import TD3
        return TD3(osp, spaces.Box(-1.0, 1.0, (2,), dtype=np.float32), batch_size=8, lr_actor=lr_actor, lr_critic=lr_critic, tau=0.5,
                   policy_freq=pf, share_encoders=False, **common)
    if algo == "PPO":
        from agilerl.algorithms.ppo import PPO
        return PPO(osp, spaces.Discrete(3), batch_size=8, lr=lr, update_epochs=1, share_encoders=False, **common)
    if algo == "NeuralUCB":
        from agilerl.algorithms.neural_ucb_bandit import NeuralUCB
        return NeuralUCB(osp, spaces.Discrete(3), batch_size=8, lr=lr, **common)
    if algo == "NeuralTS":
        from agilerl.algorithms.neural_ts_bandit import NeuralTS
        return NeuralTS(osp, spaces.Discrete(3), batch_size=8, lr=lr, **common)
    agent_ids = ["agent_0", "agent_1"]
    if algo in ("MADDPG", "MATD3"):
        mod = __import__(f"agilerl.algorithms.{algo.lower()}", fromlist=[algo])
        cls = getattr(mod, algo)
        extra = {"policy_freq": pf} if algo == "MATD3" else {}
        return cls([osp for _ in agent_ids], [spaces.Box(-1.0, 1.0, (2,), dtype=np.float32) for _ in agent_ids], agent_ids=agent_ids,
                   batch_size=8, lr_actor=lr_actor, lr_critic=lr_critic, tau=0.5, **extra, **common)
    if algo == "IPPO":
        from agilerl.algorithms.ippo import IPPO
        return IPPO([osp for _ in agent_ids], [spaces.Discrete(3) for _ in agent_ids], agent_ids=agent_ids,
                    batch_size=8, lr=lr, update_epochs=1, **common)
    raise ValueError(algo)


def sample_obs(space, n, g: torch.Generator):
    """n observations of `space` as numpy (batched), deterministic from generator g."""
    if isinstance(space, spaces.Box):
        x = torch.rand((n, *space.shape), generator=g).numpy().astype(np.float32)
        lo, hi = np.broadcast_to(space.low, space.shape), np.broadcast_to(space.high, space.shape)
        return (lo + x * (hi - lo)).astype(space.dtype)
    if isinstance(space, spaces.Discrete):
        return torch.randint(0, int(space.n), (n,), generator=g).numpy()
    if isinstance(space, spaces.Dict):
        return {k: sample_obs(s, n, g) for k, s in space.spaces.items()}
    if isinstance(space, spaces.Tuple):
        return tuple(sample_obs(s, n, g) for s in space.spaces)
    raise ValueError(space)


def _obs_td(space, o):
    if isinstance(space, spaces.Dict):
        return TensorDict({k: torch.as_tensor(v).float() if np.asarray(v).dtype.kind == "f" else torch.as_tensor(v).float() for k, v in o.items()},
                          batch_size=[len(next(iter(o.values())))])
    if isinstance(space, spaces.Tuple):
        return TensorDict({f"tuple_obs_{i}": torch.as_tensor(v).float() for i, v in enumerate(o)}, batch_size=[len(o[0])])
    t = torch.as_tensor(o).float()
    return t if t.ndim > 1 else t.unsqueeze(-1)


def make_batch(agent, algo: str, bid: int, B: int = 8):
    """Learn input number `bid` for this agent (deterministic function of bid and the agent's spaces)."""
    g = torch.Generator().manual_seed(1000 + bid)
    if algo in SINGLE and algo not in ("PPO",):
        osp, asp = agent.observation_space, agent.action_space
        obs, nobs = sample_obs(osp, B, g), sample_obs(osp, B, g)
        rew = torch.randint(-1, 2, (B, 1), generator=g).float()
        done = (torch.rand((B, 1), generator=g) < 0.3).float()
        if isinstance(asp, spaces.Discrete):
            act = torch.randint(0, int(asp.n), (B, 1), generator=g).float()
        else:
            act = (torch.rand((B, *asp.shape), generator=g) * 2 - 1).float()
        if algo in ("NeuralUCB", "NeuralTS"):
            return TensorDict({"obs": _obs_td(osp, obs), "reward": rew}, batch_size=[B])
        if algo in ("CQN", "TD3"):
            # tuple protocol (what these learn() methods unpack)
            conv = lambda o: ({k: torch.as_tensor(v) for k, v in o.items()} if isinstance(o, dict) else
                              tuple(torch.as_tensor(v) for v in o) if isinstance(o, tuple) else torch.as_tensor(o))
            return (conv(obs), act, rew, conv(nobs), done)
        return TensorDict({"obs": _obs_td(osp, obs), "action": act, "reward": rew, "next_obs": _obs_td(osp, nobs), "done": done}, batch_size=[B])
    if algo == "PPO":
        osp, asp = agent.observation_space, agent.action_space
        T, E = 4, 2
        states = [sample_obs(osp, E, g) for _ in range(T)]
        actions = [torch.randint(0, int(asp.n), (E,), generator=g).numpy() for _ in range(T)]
        logp = [(-torch.rand((E,), generator=g)).numpy() for _ in range(T)]
        rew = [torch.randint(-1, 2, (E,), generator=g).float().numpy() for _ in range(T)]
        dones = [(torch.rand((E,), generator=g) < 0.3).float().numpy() for _ in range(T)]
        # state values as a rollout records them: the CURRENT critic's predictions (PPO clips the value loss around them; with
        # arbitrary numbers the clipped branch can win everywhere and the critic legitimately receives a zero gradient)
        vals = [np.asarray(torch.as_tensor(agent.get_action(st)[3]).detach().cpu().numpy(), dtype=np.float32).reshape(E) for st in states]
        return (states, actions, logp, rew, dones, vals, sample_obs(osp, E, g), (torch.rand((E,), generator=g) < 0.3).float().numpy())
    ids = agent.agent_ids
    if algo in ("MADDPG", "MATD3"):
        def per(fn):
            return {a: fn(k) for k, a in enumerate(ids)}
        osps = {a: agent.possible_observation_spaces[a] if hasattr(agent, "possible_observation_spaces") else agent.observation_spaces[k] for k, a in enumerate(ids)}
        asps = {a: agent.possible_action_spaces[a] if hasattr(agent, "possible_action_spaces") else agent.action_spaces[k] for k, a in enumerate(ids)}
        conv = lambda sp, o: ({k: torch.as_tensor(v).float() for k, v in o.items()} if isinstance(o, dict) else
                              tuple(torch.as_tensor(v).float() for v in o) if isinstance(o, tuple) else torch.as_tensor(o).float())
        st = {a: conv(osps[a], sample_obs(osps[a], B, g)) for a in ids}
        ns = {a: conv(osps[a], sample_obs(osps[a], B, g)) for a in ids}
        ac = {a: (torch.rand((B, *asps[a].shape), generator=g) * 2 - 1).float() for a in ids}
        rw = {a: torch.randint(-1, 2, (B, 1), generator=g).float() for a in ids}
        dn = {a: (torch.rand((B, 1), generator=g) < 0.3).float() for a in ids}
        return (st, ac, rw, ns, dn)
    if algo == "IPPO":
        T, E = 4, 2
        osp = agent.possible_observation_spaces[ids[0]] if hasattr(agent, "possible_observation_spaces") else agent.observation_spaces[0]
        n_act = 3
        mk = lambda fn: {a: fn() for a in ids}
        states = mk(lambda: np.stack([sample_obs(osp, E, g) for _ in range(T)]) if not isinstance(osp, (spaces.Dict, spaces.Tuple)) else None)
        actions = mk(lambda: torch.randint(0, n_act, (T, E), generator=g).numpy())
        logp = mk(lambda: (-torch.rand((T, E), generator=g)).numpy())
        rew = mk(lambda: torch.randint(-1, 2, (T, E), generator=g).float().numpy())
        dones = mk(lambda: (torch.rand((T, E), generator=g) < 0.3).float().numpy())
        if not isinstance(osp, (spaces.Dict, spaces.Tuple)):
            per_t = [agent.get_action({a: states[a][t] for a in ids})[3] for t in range(T)]        # the current critics' predictions
            vals = {a: np.stack([np.asarray(torch.as_tensor(per_t[t][a]).detach().cpu().numpy(), dtype=np.float32).reshape(E) for t in range(T)]) for a in ids}
        else:
            vals = mk(lambda: torch.rand((T, E), generator=g).numpy())
        nxt = mk(lambda: sample_obs(osp, E, g))
        nd = mk(lambda: (torch.rand((E,), generator=g) < 0.3).float().numpy())
        return (states, actions, logp, rew, dones, vals, nxt, nd)
    raise ValueError(algo)


def learn(agent, algo: str, bid: int):
    """One deterministic learn step on batch `bid` (all RNGs seeded from bid)."""
    seed_all(7000 + bid)
    b = make_batch(agent, algo, bid, B=int(getattr(agent, "batch_size", 8)))
    if algo == "RainbowDQN":
        return agent.learn(b)
    return agent.learn(b)


def probe_obs(agent, algo: str, n: int = 3):
    g = torch.Generator().manual_seed(424242)
    if algo in MULTI:
        ids = agent.agent_ids
        osp = agent.possible_observation_spaces[ids[0]] if hasattr(agent, "possible_observation_spaces") else agent.observation_spaces[0]
        return {a: sample_obs(osp, n, g) for a in ids}
    return sample_obs(agent.observation_space, n, g)
