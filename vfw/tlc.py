"""Thin, deterministic wrapper around TLC.

Three uses (see DESIGN.md section 2.1):
  model_check()   M1  exhaustive check of a cfg, parsed summary + coverage + violation text
  dump()          M2  run a cfg whose ACTION_CONSTRAINT / invariants PrintT(<<"TAG", ToJson(..)>>) and
                      collect the JSON payloads per tag
  validate()      M3  batch trace validation through a *_Trace module (see trace.py)
  simulate()      M4  random behaviours of bounded depth, written one file per behaviour
"""
from __future__ import annotations

import json
import os
import re
import shutil
import subprocess
import tempfile
import time
from dataclasses import dataclass, field
from pathlib import Path
from typing import Dict, List, Optional

VERIF = Path(__file__).resolve().parent.parent
SPECS = VERIF / "specs"
JAR = "/opt/veriftools/tla/tla2tools.jar"
DEPS = "/opt/veriftools/tla/CommunityModules-deps.jar"


class TLCError(RuntimeError):
    """Machinery failure (parse error, crash, timeout) -- never a property verdict."""


@dataclass
class TLCResult:
    ok: bool                       # no invariant/property violation, finished normally
    generated: int = 0
    distinct: int = 0
    depth: int = 0
    wall_s: float = 0.0
    violation: str = ""            # text of the violation block if any
    violated_name: str = ""
    coverage: Dict[str, int] = field(default_factory=dict)   # action name -> distinct states / count
    tagged: Dict[str, list] = field(default_factory=dict)    # tag -> list of decoded JSON payloads
    stdout: str = ""
    cmd: str = ""


_SUMMARY = re.compile(r"(\d+) states generated, (\d+) distinct states found, (\d+) states left on queue")
_DEPTH = re.compile(r"The depth of the complete state graph search is (\d+)")
_COV = re.compile(r"^<(\w+) line (\d+), col (\d+) to line (\d+), col (\d+) of module (\w+)(?: \([\d ]+\))?>: (\d+):(\d+)")
_TAGGED = re.compile(r'^<<"([A-Z_0-9]+)", (.*)>>$')


def _unquote_tla_string(s: str):
    """A TLA+ string literal as TLC prints it -> python str ( \\" and \\\\ escapes )."""
    assert s.startswith('"') and s.endswith('"'), s[:80]
    return json.loads(s)


_TAGSTART = re.compile(r'^<<\s*"([A-Z_0-9]+)",\s*')


def _tagged_values(text: str):
    """Yield (tag, rest) for every top-level tuple <<"TAG", rest>> printed by TLC, also when it was
    pretty-printed over several lines. Bracket matching respects string literals."""
    lines = text.splitlines()
    i = 0
    while i < len(lines):
        if not lines[i].startswith("<<"):
            i += 1
            continue
        buf = lines[i]
        j = i
        while True:
            depth, k, instr = 0, 0, False
            closed = False
            while k < len(buf):
                c = buf[k]
                if instr:
                    if c == "\\":
                        k += 1
                    elif c == '"':
                        instr = False
                elif c == '"':
                    instr = True
                elif buf.startswith("<<", k):
                    depth += 1
                    k += 1
                elif buf.startswith(">>", k):
                    depth -= 1
                    k += 1
                    if depth == 0:
                        closed = True
                        break
                k += 1
            if closed or j + 1 >= len(lines) or j - i > 2000:
                break
            j += 1
            buf += " " + lines[j].strip()
        i = j + 1
        m = _TAGSTART.match(buf)
        if m and buf.rstrip().endswith(">>"):
            rest = buf[m.end():].rstrip()[:-2].strip()
            yield m.group(1), rest


def scratch_dir(prefix: str = "vfw") -> Path:
    base = os.environ.get("VERIF_SCRATCH") or tempfile.gettempdir()
    return Path(tempfile.mkdtemp(prefix=prefix + "-", dir=base))


def run_tlc(module: str, cfg: str, *, workers: int | str = "auto", timeout: int = 1800,
            extra: Optional[List[str]] = None, env: Optional[Dict[str, str]] = None,
            coverage: bool = False, deadlock: bool = False, spec_dir: Path = SPECS,
            heap: str = "8g", dfs: bool = False, library: Optional[Path] = None) -> TLCResult:
    """Run TLC on specs/<module>.tla with specs/<cfg>. Returns a parsed TLCResult.

    Raises TLCError on anything that is not 'finished, no error' or 'finished, property violated'.
    """
    meta = scratch_dir("tlcmeta")
    jopts = [f"-Xmx{heap}", "-Xss64m", "-XX:+UseParallelGC"]
    if dfs:
        jopts.append("-Dtlc2.tool.queue.IStateQueue=StateDeque")
    if library is not None:
        jopts.append(f"-DTLA-Library={library}")
    cmd = ["java", *jopts, "-cp", f"{JAR}:{DEPS}", "tlc2.TLC",
           "-workers", str(workers), "-metadir", str(meta), "-noGenerateSpecTE", "-nowarning",
           "-config", str(cfg)]
    if coverage:
        cmd += ["-coverage", "1"]
    if deadlock:
        pass
    else:
        cmd += ["-deadlock"]       # -deadlock = do NOT check for deadlock
    cmd += list(extra or [])
    cmd += [module]
    e = dict(os.environ)
    e.update(env or {})
    e.pop("JAVA_TOOL_OPTIONS", None)
    t0 = time.time()
    try:
        p = subprocess.run(cmd, cwd=str(spec_dir), env=e, capture_output=True, text=True, timeout=timeout)
    except subprocess.TimeoutExpired as ex:
        shutil.rmtree(meta, ignore_errors=True)
        raise TLCError(f"TLC timeout after {timeout}s: {' '.join(cmd)}") from ex
    finally:
        shutil.rmtree(meta, ignore_errors=True)
    out = p.stdout + "\n" + p.stderr
    res = TLCResult(ok=False, wall_s=time.time() - t0, stdout=out, cmd=" ".join(cmd))
    # tagged payload values: PrintT(<<"TAG", x>>) -- TLC may pretty-print them over several lines
    for tag, rest in _tagged_values(p.stdout):
        try:
            payload = json.loads(_unquote_tla_string(rest)) if rest.startswith('"') else rest
        except Exception:
            payload = rest
        res.tagged.setdefault(tag, []).append(payload)
    for line in p.stdout.splitlines():
        m = _COV.match(line)
        if m:
            name = m.group(1)
            res.coverage[name] = res.coverage.get(name, 0) + int(m.group(8))   # states generated by this action
    ms = _SUMMARY.findall(out)
    if ms:
        res.generated, res.distinct = int(ms[-1][0]), int(ms[-1][1])
    md = _DEPTH.search(out)
    if md:
        res.depth = int(md.group(1))
    if "Model checking completed. No error has been found." in out or \
       ("Finished in" in out and "Error:" not in out):
        res.ok = True
        return res
    mv = re.search(r"Error: Invariant (\S+) is violated", out)
    ma = re.search(r"Error: Action property (\S+) is violated", out)
    mt = re.search(r"Error: Temporal properties were violated", out)
    mdl = re.search(r"Error: Deadlock reached", out)
    if mv or ma or mt or mdl:
        res.violated_name = (mv or ma).group(1) if (mv or ma) else ("Temporal" if mt else "Deadlock")
        i = out.find("Error:")
        res.violation = out[i:i + 20000]
        return res
    raise TLCError("TLC failed (exit %s):\n%s\n--- cmd: %s" % (p.returncode, out[-6000:], " ".join(cmd)))


def model_check(module: str, cfg: str, **kw) -> TLCResult:
    kw.setdefault("coverage", True)
    return run_tlc(module, cfg, **kw)


def dump(module: str, cfg: str, **kw) -> TLCResult:
    """Single worker so that PrintT lines do not interleave and order is BFS order."""
    kw.setdefault("workers", 1)
    r = run_tlc(module, cfg, **kw)
    if not r.ok:
        raise TLCError(f"dump run of {module}/{cfg} reported a violation:\n{r.violation[:3000]}")
    return r


def simulate(module: str, cfg: str, *, num: int, depth: int, seed: int, outdir: Path, **kw) -> List[Path]:
    outdir.mkdir(parents=True, exist_ok=True)
    extra = ["-simulate", f"file={outdir}/b,num={num}", "-depth", str(depth), "-seed", str(seed)]
    kw.setdefault("workers", 1)
    r = run_tlc(module, cfg, extra=extra, **kw)
    if not r.ok:
        raise TLCError(f"simulate run reported a violation:\n{r.violation[:3000]}")
    return sorted(outdir.glob("b_*"))


def write_cfg(path: Path, *, init="Init", next_="Next", spec=None, constants: Dict[str, str] | None = None,
              invariants=(), properties=(), constraints=(), action_constraints=(), view=None,
              postcondition=None, symmetry=None, deadlock=None):
    lines = []
    if spec:
        lines.append(f"SPECIFICATION {spec}")
    else:
        lines += [f"INIT {init}", f"NEXT {next_}"]
    if constants:
        lines.append("CONSTANTS")
        for k, v in constants.items():
            lines.append(f"  {k} = {v}" if not str(v).startswith("<-") else f"  {k} {v}")
    for i in invariants:
        lines.append(f"INVARIANT {i}")
    for p in properties:
        lines.append(f"PROPERTY {p}")
    for c in constraints:
        lines.append(f"CONSTRAINT {c}")
    for c in action_constraints:
        lines.append(f"ACTION_CONSTRAINT {c}")
    if view:
        lines.append(f"VIEW {view}")
    if postcondition:
        lines.append(f"POSTCONDITION {postcondition}")
    if symmetry:
        lines.append(f"SYMMETRY {symmetry}")
    if deadlock is not None:
        lines.append(f"CHECK_DEADLOCK {'TRUE' if deadlock else 'FALSE'}")
    path.write_text("\n".join(lines) + "\n")
    return path
