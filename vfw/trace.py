"""M3: batch trace validation through TLC.

A *_Trace.tla module EXTENDS the base specification and defines, by convention,

    Traces == JsonDeserialize(IOEnv.TRACE_FILE)          \* list of [cfg |-> ..., ev |-> <<event,...>>]
    VARIABLES tid, l                                     \* which trace, next event to consume
    Check(name, c) == IF c THEN TRUE ELSE (Diag /\ PrintT(<<"FAILCLAUSE", tid, l, name>>) /\ FALSE)
    TAccept == l = Len(Traces[tid].ev) + 1 /\ PrintT(<<"ACCEPT", tid>>) /\ l' = l + 1 /\ UNCHANGED ...

A trace is accepted iff some behaviour of the trace specification consumes every event (TLC prints
ACCEPT tid).  All invariants of the base specification are INVARIANTs of the trace run, so they are
evaluated in every state of every observed execution.  Rejected traces are re-run with Diag = TRUE;
the deepest event reached and the clause(s) that failed there are reported (total verdicts).
"""
from __future__ import annotations

import json
import os
from dataclasses import dataclass, field
from pathlib import Path
from typing import Dict, List, Sequence

from . import tlc


@dataclass
class Verdict:
    accepted: bool
    step: int = 0              # 1-based index of the event that could not be matched (0 if accepted)
    clauses: List[str] = field(default_factory=list)
    event: object = None
    invariant: str = ""        # name of a base-spec invariant violated on this trace, if any


WRAPPER = None      # optional (name, text) of a generated module that EXTENDS the trace module


def _run(module: str, cfg_text: str, traces: Sequence[dict], diag: bool, timeout: int, dfs: bool):
    d = tlc.scratch_dir("trace")
    try:
        tf = d / "traces.json"
        tf.write_text(json.dumps(list(traces)))
        cfgp = d / "trace.cfg"
        cfgp.write_text(cfg_text.replace("@DIAG@", "TRUE" if diag else "FALSE"))
        if WRAPPER is not None:
            (d / (WRAPPER[0] + ".tla")).write_text(WRAPPER[1])
            r = tlc.run_tlc(WRAPPER[0], str(cfgp), workers=1, timeout=timeout, env={"TRACE_FILE": str(tf)}, dfs=dfs,
                            spec_dir=d, library=tlc.SPECS)
        else:
            r = tlc.run_tlc(module, str(cfgp), workers=1, timeout=timeout, env={"TRACE_FILE": str(tf)}, dfs=dfs)
        return r
    finally:
        import shutil
        shutil.rmtree(d, ignore_errors=True)


def validate(module: str, cfg_text: str, traces: Sequence[dict], *, timeout: int = 1800,
             chunk: int = 400, dfs: bool = False) -> List[Verdict]:
    """Validate every trace; returns one Verdict per trace (same order)."""
    verdicts: List[Verdict] = [None] * len(traces)      # type: ignore
    stats = {"states": 0, "distinct": 0}
    for c0 in range(0, len(traces), chunk):
        part = list(traces[c0:c0 + chunk])
        for i, v in enumerate(_validate_part(module, cfg_text, part, timeout, dfs, stats)):
            verdicts[c0 + i] = v
    validate.last_stats = stats     # type: ignore
    return verdicts


def _validate_part(module, cfg_text, part, timeout, dfs, stats) -> List[Verdict]:
    r = _run(module, cfg_text, part, False, timeout, dfs)
    stats["states"] += r.generated
    stats["distinct"] += r.distinct
    if not r.ok:
        # an invariant of the base spec failed on some trace of this part: bisect
        if len(part) == 1:
            return [Verdict(False, invariant=r.violated_name, event=None)]
        h = len(part) // 2
        return (_validate_part(module, cfg_text, part[:h], timeout, dfs, stats)
                + _validate_part(module, cfg_text, part[h:], timeout, dfs, stats))
    accepted = {int(x) for x in _acc(r)}
    out: List[Verdict] = [Verdict(True) if (i + 1) in accepted else None for i in range(len(part))]   # type: ignore
    rej = [i for i, v in enumerate(out) if v is None]
    if rej:
        for i, v in zip(rej, _diagnose(module, cfg_text, [part[i] for i in rej], timeout, dfs)):
            out[i] = v
    return out


def _acc(r):
    return [str(p).strip() for p in r.tagged.get("ACCEPT", [])]


def _diagnose(module, cfg_text, ts, timeout, dfs) -> List[Verdict]:
    """One Diag=TRUE run over all rejected traces: deepest event reached + clauses failing there."""
    r = _run(module, cfg_text, ts, True, timeout, dfs)
    if not r.ok:
        if len(ts) == 1:
            return [Verdict(False, invariant=r.violated_name)]
        h = len(ts) // 2
        return _diagnose(module, cfg_text, ts[:h], timeout, dfs) + _diagnose(module, cfg_text, ts[h:], timeout, dfs)
    acc = {int(x) for x in _acc(r)}
    names: Dict[int, Dict[int, List[str]]] = {}
    for p in r.tagged.get("FAILCLAUSE", []):
        parts = [x.strip() for x in str(p).split(",", 2)]
        tid, l, nm = int(parts[0]), int(parts[1]), parts[2].strip().strip('"')
        d = names.setdefault(tid, {})
        d.setdefault(l, [])
        if nm not in d[l]:
            d[l].append(nm)
    out = []
    for i, t in enumerate(ts, start=1):
        if i in acc:
            out.append(Verdict(True))
            continue
        d = names.get(i, {})
        best = max(d) if d else 0
        ev = None
        try:
            ev = t["ev"][best - 1] if best >= 1 else None
        except Exception:
            pass
        out.append(Verdict(False, step=best, clauses=d.get(best, ["<no enabled action>"]), event=ev))
    return out
