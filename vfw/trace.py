"""M3: batch trace validation through TLC.

A *_Trace.tla module EXTENDS the base specification and defines, by convention,

    Traces == JsonDeserialize(IOEnv.TRACE_FILE)          \* list of [cfg |-> ..., ev |-> <<event,...>>]
    VARIABLES tid, l                                     \* which trace, next event to consume
    Check(name, c) == IF c THEN TRUE ELSE (Diag /\ PrintT(<<"FAILCLAUSE", tid, l, name>>) /\ FALSE)
    TAccept == l = Len(Traces[tid].ev) + 1 /\ PrintT(<<"ACCEPT", tid>>) /\ l' = l + 1 /\ UNCHANGED ...

A trace is accepted iff some behaviour of the trace specification consumes every event (TLC prints
ACCEPT tid).  All invariants of the base specification are INVARIANTs of the trace run, so they are
evaluated in every state of every observed execution.  Rejected traces are re-run with Diag = TRUE;
the deepest event reached and the clause(s) that failed there are reported (total verdicts).
"""
from __future__ import annotations

import json
import os
from dataclasses import dataclass, field
from pathlib import Path
from typing import Dict, List, Sequence

from . import tlc


@dataclass
class Verdict:
    accepted: bool
    step: int = 0              # 1-based index of the event that could not be matched (0 if accepted)
    clauses: List[str] = field(default_factory=list)
    event: object = None
    invariant: str = ""        # name of a base-spec invariant violated on this trace, if any


def _run(module: str, cfg_text: str, traces: Sequence[dict], diag: bool, timeout: int, dfs: bool):
    d = tlc.scratch_dir("trace")
    try:
        tf = d / "traces.json"
        tf.write_text(json.dumps(list(traces)))
        cfgp = d / "trace.cfg"
        cfgp.write_text(cfg_text.replace("@DIAG@", "TRUE" if diag else "FALSE"))
        r = tlc.run_tlc(module, str(cfgp), workers=1, timeout=timeout, env={"TRACE_FILE": str(tf)}, dfs=dfs)
        return r
    finally:
        import shutil
        shutil.rmtree(d, ignore_errors=True)


def validate(module: str, cfg_text: str, traces: Sequence[dict], *, timeout: int = 1800,
             chunk: int = 400, dfs: bool = False) -> List[Verdict]:
    """Validate every trace; returns one Verdict per trace (same order)."""
    verdicts: List[Verdict] = [None] * len(traces)      # type: ignore
    stats = {"states": 0, "distinct": 0}
    for c0 in range(0, len(traces), chunk):
        part = traces[c0:c0 + chunk]
        r = _run(module, cfg_text, part, False, timeout, dfs)
        stats["states"] += r.generated
        stats["distinct"] += r.distinct
        bad_inv = {}
        if not r.ok:
            # an invariant of the base spec failed on some trace: find which by bisection (re-run singly)
            for i, t in enumerate(part):
                r1 = _run(module, cfg_text, [t], False, timeout, dfs)
                if not r1.ok:
                    bad_inv[i] = r1.violated_name
                    verdicts[c0 + i] = Verdict(False, invariant=r1.violated_name)
                elif 1 in [int(x) for x in _acc(r1)]:
                    verdicts[c0 + i] = Verdict(True)
            accepted = set()
        else:
            accepted = {int(x) for x in _acc(r)}
        for i, t in enumerate(part):
            if verdicts[c0 + i] is not None:
                continue
            if (i + 1) in accepted:
                verdicts[c0 + i] = Verdict(True)
            else:
                verdicts[c0 + i] = _diagnose(module, cfg_text, t, timeout, dfs)
    validate.last_stats = stats     # type: ignore
    return verdicts


def _acc(r):
    out = []
    for p in r.tagged.get("ACCEPT", []):
        out.append(str(p).strip())
    return out


def _diagnose(module, cfg_text, t, timeout, dfs) -> Verdict:
    r = _run(module, cfg_text, [t], True, timeout, dfs)
    if not r.ok:
        return Verdict(False, invariant=r.violated_name)
    if _acc(r):
        return Verdict(True)       # flaky? treated as accepted only if the singleton run accepts
    best = 0
    names: Dict[int, List[str]] = {}
    for p in r.tagged.get("FAILCLAUSE", []):
        # payload is the raw text  tid, l, "name"
        parts = [x.strip() for x in str(p).split(",", 2)]
        l = int(parts[1])
        nm = parts[2].strip('"')
        names.setdefault(l, [])
        if nm not in names[l]:
            names[l].append(nm)
        best = max(best, l)
    ev = None
    try:
        ev = t["ev"][best - 1] if best >= 1 else None
    except Exception:
        pass
    return Verdict(False, step=best, clauses=names.get(best, ["<no enabled action>"]), event=ev)
