"""Apalache (symbolic model checker for TLA+) runner: inductive-invariant checks for specifications small enough for SMT."""
from __future__ import annotations

import os
import re
import shutil
import subprocess
import tempfile
import time
from pathlib import Path

SPECS = Path(__file__).resolve().parent.parent / "specs"


class ApalacheError(Exception):
    pass


def available() -> bool:
    return shutil.which("apalache-mc") is not None


def check(module: str, *, cinit: str, init: str, inv: str, length: int, timeout: int = 1800) -> dict:
    """apalache-mc check; returns {"ok": True/False, ...}; raises ApalacheError when the tool itself fails."""
    out = tempfile.mkdtemp(prefix="apa-")
    t0 = time.time()
    try:
        cmd = ["apalache-mc", "check", f"--cinit={cinit}", f"--init={init}", f"--inv={inv}", f"--length={length}",
               f"--out-dir={out}", f"--run-dir={out}/run", str(SPECS / f"{module}.tla")]
        env = dict(os.environ)
        env.setdefault("JVM_ARGS", "-Xmx6g")
        r = subprocess.run(cmd, cwd=out, capture_output=True, text=True, timeout=timeout, env=env)
        text = r.stdout + r.stderr
        m = re.search(r"EXITCODE: (\w+)(?: \((\d+)\))?", text)
        res = {"module": module, "cinit": cinit, "init": init, "inv": inv, "length": length, "wall_s": round(time.time() - t0, 2)}
        if m and m.group(1) == "OK":
            return dict(res, ok=True)
        if m and m.group(2) == "12":                # invariant violation (counterexample found)
            return dict(res, ok=False)
        raise ApalacheError(f"apalache-mc failed on {module} ({init} / {inv}): {text[-600:]}")
    except subprocess.TimeoutExpired:
        raise ApalacheError(f"apalache-mc timed out after {timeout}s on {module} ({init} / {inv})")
    finally:
        shutil.rmtree(out, ignore_errors=True)


def inductive(module: str, cinit: str, *, init="Init", ind="IndInv", safety="Safety", weak=None, timeout=1800) -> dict:
    """Init => Ind (length 0), Ind /\\ Next => Ind' (length 1 from Ind), Ind => Safety (length 0 from Ind); optional negative
    control: Weak must NOT imply Safety."""
    steps = [check(module, cinit=cinit, init=init, inv=ind, length=0, timeout=timeout),
             check(module, cinit=cinit, init=ind, inv=ind, length=1, timeout=timeout),
             check(module, cinit=cinit, init=ind, inv=safety, length=0, timeout=timeout)]
    res = {"module": module, "cinit": cinit, "steps": steps, "proved": all(s["ok"] for s in steps)}
    if weak:
        neg = check(module, cinit=cinit, init=weak, inv=safety, length=0, timeout=timeout)
        res["negative_control"] = {"init": weak, "refuted": not neg["ok"], "wall_s": neg["wall_s"]}
    return res
