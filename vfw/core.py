"""Check context: evidence, violations, known findings, exit codes (DESIGN.md 2.2, 2.3, 8)."""
from __future__ import annotations

import hashlib
import json
import os
import re
import sys
import time
import traceback
from pathlib import Path
from typing import Any, Dict, List, Optional

from . import tlc, trace as trace_mod

VERIF = Path(__file__).resolve().parent.parent
EVID = Path(os.environ.get("VERIF_EVIDENCE_DIR") or (VERIF / "evidence"))
REPLAYS = VERIF / "replays"
FINDINGS = VERIF / "known_findings.json"


class Vacuous(RuntimeError):
    pass


def load_findings() -> List[dict]:
    if not FINDINGS.exists():
        return []
    return json.loads(FINDINGS.read_text()).get("findings", [])


class Ctx:
    def __init__(self, pid: str, tier: str, seed: int):
        self.pid, self.tier, self.seed = pid, tier, seed
        self.t0 = time.time()
        self.states = 0
        self.transitions = 0
        self.traces_validated = 0
        self.evaluations = 0
        self.distinct: set = set()
        self.samples: List[Any] = []
        self.assumptions: List[str] = []
        self.extra: Dict[str, Any] = {}
        self.violations: List[dict] = []
        self.known_hits: Dict[str, int] = {}
        self.mc_runs: List[dict] = []
        self.findings = [f for f in load_findings() if f.get("property") == pid]
        self.quick = tier == "quick"

    # ------------------------------------------------------------------ TLC M1
    def mc(self, module: str, cfg: str, *, must_cover: Optional[List[str]] = None, **kw) -> tlc.TLCResult:
        r = tlc.model_check(module, cfg, **kw)
        self.states += r.distinct
        self.transitions += r.generated
        self.mc_runs.append({"module": module, "cfg": cfg, "distinct_states": r.distinct,
                             "states_generated": r.generated, "depth": r.depth,
                             "wall_s": round(r.wall_s, 2), "ok": r.ok,
                             "action_coverage": {k: v for k, v in r.coverage.items()}})
        if not r.ok:
            self.violation(f"tlc:{module}:{r.violated_name}",
                           f"TLC: {r.violated_name} violated in {module} ({cfg})",
                           {"kind": "tlc-counterexample", "module": module, "cfg": cfg, "text": r.violation})
            return r
        for a in must_cover or []:
            if sum(r.coverage.get(x, 0) for x in a.split("|")) == 0:
                raise Vacuous(f"action {a} of {module} never taken under {cfg} (coverage {r.coverage})")
        return r

    # ------------------------------------------------------------------ TLC M3
    def validate(self, module: str, cfg_text: str, traces: List[dict], *, sig, what, **kw) -> List[trace_mod.Verdict]:
        """Validate traces; every rejected trace becomes a violation with signature sig(trace, verdict)."""
        vs = trace_mod.validate(module, cfg_text, traces, **kw)
        st = getattr(trace_mod.validate, "last_stats", {})
        self.extra.setdefault("trace_validation_states", 0)
        self.extra["trace_validation_states"] += st.get("distinct", 0)
        for t, v in zip(traces, vs):
            self.traces_validated += 1
            if not v.accepted:
                self.violation(sig(t, v), what(t, v),
                               {"kind": "rejected-trace", "module": module, "cfg_text": cfg_text,
                                "wrapper": list(trace_mod.WRAPPER) if trace_mod.WRAPPER else None, "trace": t,
                                "step": v.step, "clauses": v.clauses, "event": v.event,
                                "invariant": v.invariant})
        return vs

    # ------------------------------------------------------------------ bookkeeping
    def case(self, key: Any, nontrivial: bool = True):
        self.evaluations += 1
        if nontrivial:
            self.distinct.add(key if isinstance(key, (str, int, tuple)) else json.dumps(key, sort_keys=True, default=str))

    def sample(self, obj: Any, cap: int = 6):
        if len(self.samples) < cap:
            self.samples.append(obj)

    def assume(self, text: str):
        if text not in self.assumptions:
            self.assumptions.append(text)

    def violation(self, signature: str, what: str, replay: Any):
        for f in self.findings:
            if f.get("status") == "known" and re.fullmatch(f["match"], signature):
                self.known_hits[f["id"]] = self.known_hits.get(f["id"], 0) + 1
                return
        for v in self.violations:
            if v["signature"] == signature:
                v["count"] += 1
                return
        self.violations.append({"signature": signature, "what": what, "replay": replay, "count": 1})

    # ------------------------------------------------------------------ finish
    def finish(self, level: str, rule: str, exhaustive: bool = False) -> int:
        EVID.mkdir(exist_ok=True)
        REPLAYS.mkdir(exist_ok=True)
        out_lines = []
        for f in self.findings:
            if f.get("status") == "known" and self.known_hits.get(f["id"]):
                out_lines.append(f"KNOWN-FINDING: property={self.pid} {f['what']} [{f['id']}, seen {self.known_hits[f['id']]}x]")
        rc = 0
        for v in self.violations:
            h = hashlib.sha256(v["signature"].encode()).hexdigest()[:10]
            p = REPLAYS / f"{self.pid}-{h}.json"
            p.write_text(json.dumps({"property": self.pid, "signature": v["signature"], "what": v["what"],
                                     "seed": self.seed, "tier": self.tier, "count": v["count"],
                                     "replay": v["replay"]}, indent=1, default=str))
            out_lines.append(f"VIOLATION property={self.pid} replay={p}")
            out_lines.append(f"  signature: {v['signature']}")
            out_lines.append(f"  what: {v['what']} (x{v['count']})")
            rc = 1
        cov = {
            "states": self.states,
            "transitions": self.transitions,
            "traces_validated_against_impl": self.traces_validated,
            "samples": self.samples[:6] or ["<none>"],
            "evaluations": self.evaluations,
            "distinct_nontrivial": len(self.distinct),
            "rule": rule,
            "exhaustive": exhaustive,
            "tlc_runs": self.mc_runs,
            "known_findings_seen": self.known_hits,
        }
        cov.update(self.extra)
        ev = {"property_id": self.pid, "tier": self.tier, "seed": self.seed, "level": level,
              "coverage": cov, "assumptions": self.assumptions,
              "wall_s": round(time.time() - self.t0, 2), "violations": len(self.violations)}
        # checks beyond the listed properties (ids X01, X02, ...: growth of the specification) keep their evidence apart
        evdir = EVID / "extras" if self.pid.startswith("X") else EVID
        evdir.mkdir(exist_ok=True)
        (evdir / f"{self.pid}.json").write_text(json.dumps(ev, indent=1, default=str) + "\n")
        for ln in out_lines:
            print(ln)
        print(f"[{self.pid}] tier={self.tier} seed={self.seed} states={self.states} transitions={self.transitions} "
              f"traces={self.traces_validated} evals={self.evaluations} distinct={len(self.distinct)} "
              f"violations={len(self.violations)} known={sum(self.known_hits.values())} wall={ev['wall_s']}s")
        sys.stdout.flush()
        return rc
