#!/usr/bin/env python3
"""Rewrite DESIGN.md section 14 from seeded/*/meta.json."""
import glob, json, re
from pathlib import Path
V = Path(__file__).resolve().parent.parent
rows = []
for f in sorted(glob.glob(str(V / "seeded" / "*" / "meta.json"))):
    m = json.load(open(f))
    esc = lambda x: x.replace("|", "\\|")
    rows.append(f"| {m['id']} | {m['property']} | {m['caught_by_check']} | {esc(m['needs_to_manifest'])} | {esc('; '.join('`%s`' % s for s in m['violation_signatures']))} |")
text = """## 14. Seeded changes: which check catches what

Every change below was written by a fresh sub-agent that was given only the text of the property and its own scratch
worktree (nothing from /verif), in six rounds (letters a-b, c-d, e-f, g-h, i, then the next free letter per property; each round was told to avoid
the code sites and mechanisms of the earlier ones). Each was confirmed here: the patch applies to the repository (`applies_to_repo_commit` in `meta.json`), its
demonstration exits 1 on the changed tree and 0 on the unchanged tree, and the property's quick check was run against the
changed tree (`tools/try_seed.sh`, via `VERIF_REPO`). That the existing tests do not notice the change was established by the
seeder's before / after comparison of the test modules covering the touched code (recorded per seed) and, for the first round,
also by `tools/test_seed.sh` on the stable baseline tests of the touched area. "after-strengthening" = the first run missed it;
the check was strengthened (what was changed is in `meta.json` and section 13) and then reported it, while still passing on the
unchanged tree. The misses had one cause almost throughout: a dimension of the property's quantifier (an option, a boundary value,
a key order, an interleaving, a heterogeneous population) that the driver did not vary; sections 13 and 15 and the coverage
audits (`tools/AUDIT_BRIEF.md`) record how the drivers and specifications were widened.

| Seed | Property | Caught | What it needs to manifest | Violation signature(s) reported by the check |
|---|---|---|---|---|
""" + "\n".join(rows) + "\n"
p = V / "DESIGN.md"
s = p.read_text()
i = s.index("## 14. Seeded changes")
p.write_text(s[:i] + text)
print(len(rows), "rows")
