#!/usr/bin/env python3
"""tools/keep_seed.py <src dir> <seed id> <property> <caught: yes|no|after-strengthening> "<needs>" "<ran>" [signatures...]
Copies patch.diff, demo.py, notes.md into /verif/seeded/<seed id>/ and writes meta.json."""
import json, shutil, sys
from pathlib import Path
src, sid, prop, caught, needs, ran = sys.argv[1:7]
sigs = sys.argv[7:]
dst = Path("/verif/seeded") / sid
dst.mkdir(parents=True, exist_ok=True)
for f in ("patch.diff", "demo.py", "notes.md"):
    if (Path(src) / f).exists():
        shutil.copy(Path(src) / f, dst / f)
json.dump({"id": sid, "property": prop, "breaks": prop, "needs_to_manifest": needs, "confirmed": ran,
           "caught_by_check": caught, "violation_signatures": sigs,
           "origin": "independent sub-agent given only the property text and a scratch worktree"},
          open(dst / "meta.json", "w"), indent=1)
print("kept", dst)
