#!/usr/bin/env python3
"""Regenerate MANIFEST.json from the table below (single source of truth for what is claimed)."""
import json
import subprocess
from pathlib import Path

V = Path(__file__).resolve().parent.parent
ALL = [f"C{i:02d}" for i in range(1, 21)]

CLAIMED = {
    "C09": dict(
        technique="TLA+ spec (Ring.tla, MABuffer.tla) model-checked by TLC + conformance: TLC's transition relation replayed into the real buffers and every recorded execution validated by TLC (trace validation)",
        text="Exhaustive TLC check of an implementation-shaped ring/FIFO specification (capacities 1..4, all widths, clear at any point) decides the design; every Add/Clear edge of TLC's reachable graph is executed on the real ReplayBuffer and MultiAgentReplayBuffer for vector/image/dict/tuple observations with sample(B) for all B, and seeded long runs (capacity up to 64) are recorded; TLC validates each recorded execution against the spec with all invariants on.",
        note="Trusted: TLC, the id codec/projection in vfw/codec.py + vfw/drive/ring.py (decodes storage[:len] / memory field by field), float32 exactness of ids < 2^17. Widths > capacity are outside the property.",
        design="4/C09"),
    "C10": dict(
        technique="TLA+ spec NStep.tla (permissive AllowedK exactly as the property states; ImplK = implementation rule) model-checked by TLC + TLC trace validation of the real MultiStepReplayBuffer and its companion 1-step buffer",
        text="TLC checks NoCross, ReturnDef, StopsOnlyAtEnd, Aligned and ImplAllowed for every placement of done flags (streams <= 6, n <= 3, <= 2 envs, all permitted cuts). The same grid of done placements plus seeded long streams (n 1..5, 1..4 envs, capacity 4..16, PER companion, index-coupled sampling) is executed on the real buffers; after every add both storages are snapshotted and TLC validates the whole execution against the spec.",
        note="Trusted: TLC, projection in vfw/drive/nstep.py (decodes (t,e) from obs/action, last step from next_obs, scaled return), gamma in {1,1/2,1/4} so float32 returns are exact. Truncation without done is not treated as an episode end.",
        design="4/C10"),
    "C11": dict(
        technique="TLA+ spec PER.tla (implementation-shaped segment trees, exact integer arithmetic) model-checked by TLC + TLC trace validation of the real PrioritizedReplayBuffer (exact mode with stubbed variates; inexact mode with measured facts)",
        text="TLC checks TreeSum, TreeMin, LeavesOK, PtrOK, MaxPOK, NewGetsMax and SampleOK over all interleavings of add/update/sample for capacities 1..5. Exact-mode executions of the real buffer (alpha=1, integer priorities, variates k/8 incl. stratum ends) are validated by TLC leaf by leaf, index by index and weight by weight (as exact fractions); inexact-mode executions (float priorities incl. 0, 1e-9, 1e8, repeated indices, alpha/beta grid, any batch size) are validated on the discrete state plus tolerance-classified facts.",
        note="Trusted: TLC, float->fraction conversion (limit_denominator 4096), tolerance 1e-9/1e-5 in inexact mode, driver-side stub of torch.rand during sample(). clear() is outside C11's quantifier.",
        design="4/C11"),
    "C12": dict(
        technique="TLA+ specs VecData.tla (N independent scripted environments, per-environment auto-reset) and VecEnv.tla (worker/parent protocol, all interleavings) model-checked by TLC + TLC trace validation of the real AsyncPettingZooVecEnv and PettingZooAutoResetParallelWrapper on scripted PettingZoo environments",
        text="TLC checks OnlyDoneEnvResets / ObsIsCurrent / ResetRestoresAgents on the data model and StepEquivalence / SlotIsolation under every interleaving of worker progress (3 workers, episode lengths 1,2,3). Scripted environments (per-environment episode lengths, termination-only / truncation-only / mixed endings, early leaving agents, vector/image/dict/tuple observations, 4 dtypes, discrete and continuous actions, copy/no-copy) are run stand-alone, inside the real vector env and inside the auto-reset wrapper; TLC validates every returned observation id, reward, flag and info value position by position.",
        note="Trusted: TLC; ScriptedEnv (validated against the spec in mode ref); projection decodes observation ids from returned arrays; values for agents absent from an environment are not compared.",
        design="4/C12"),
    "C13": dict(
        technique="TLA+ spec VecEnv.tla (implementation-shaped async protocol with Raise/Kill faults and blocking conditions) model-checked by TLC for safety, deadlock (= hang) and liveness + TLC-simulated behaviours replayed as fault scripts on the real AsyncPettingZooVecEnv, outcomes validated by TLC (VecEnv_Trace)",
        text="TLC explores every interleaving of client calls (incl. out-of-order use, timeouts, close in 4 blocking phases), worker progress and up to 2 raise/kill faults for 2 workers: MisuseRejected, ErrorTypeOK, TimeoutIsTimeout, CloseNeverRaises, NoWorkerLeft, no deadlock, and NoHang under fairness. Behaviours generated by tlc -simulate plus hand-written fault scripts are executed against the real class (sub-environments that raise / sleep / SIGKILL at a given command, 10 s watchdog); TLC validates each recorded execution, inferring worker progress.",
        note="Trusted: TLC; fork-based scenario runner with watchdog (hang = no return within 10 s, injected sleeps 0.5 s, timeouts 0.15 s); BrokenPipe/ConnectionReset abstracted to one class. Exhaustive configs assume the client does not re-issue a wait after EOFError (that history is the recorded known finding F-C13-2).",
        design="4/C13"),
}
NOT_YET = "check not built yet in this round (planned, see DESIGN.md section 4)"


def main():
    commits = subprocess.run(["git", "-C", "/repo", "log", "--format=%h %s", "6e0befc..HEAD"],
                             capture_output=True, text=True).stdout.strip().splitlines()
    hooks = [c.split()[0] for c in commits if c.split(" ", 1)[1].startswith("verif-hook")]
    m = {
        "version": 1,
        "setup_cmd": "cd /verif && ./setup.sh",
        "hooks": {
            "guard": "AGILERL_VERIF",
            "enable": "environment variable AGILERL_VERIF=1 (set by ./check); the package is an editable install, nothing is rebuilt",
            "baseline_off_cmd": "cd /repo && env -u AGILERL_VERIF /venv/bin/python -m pytest -ra -q -p no:cacheprovider --timeout=900 --continue-on-collection-errors",
            "source_commits": hooks,
            "add_only": True,
        },
        "engines": [
            {"name": "tlc", "path": "/opt/veriftools/tla/tla2tools.jar", "serves_properties": sorted(CLAIMED),
             "kind_free_text": "explicit-state model checker for the TLA+ specifications in /verif/specs (exhaustive MC, relation dumps, trace validation, simulation)"},
            {"name": "vfw", "path": "/verif/vfw", "serves_properties": sorted(CLAIMED),
             "kind_free_text": "Python conformance harness: drives the real AgileRL objects along TLC-generated behaviours, records projected traces, feeds them back to TLC"},
        ],
        "checks": [],
        "not_applicable": [],
        "notes": "All checks: ./check <id> --tier quick|thorough. Exit 0 held / 1 VIOLATION / 2 machinery failure. known_findings.json lists genuine defects (fixed or recorded).",
    }
    for pid in ALL:
        if pid in CLAIMED:
            c = CLAIMED[pid]
            m["checks"].append({
                "property_id": pid,
                "quick_cmd": f"./check {pid} --tier quick",
                "thorough_cmd": f"./check {pid} --tier thorough",
                "evidence_file": f"/verif/evidence/{pid}.json",
                "replay_cmd_template": f"./check {pid} --replay {{path}}",
                "engine": "tlc",
                "level_claimed": {"category": "model_checking", "text": c["text"], "design_ref": c["design"]},
                "level_note": c["note"],
                "technique": c["technique"],
            })
        else:
            m["not_applicable"].append({"property_id": pid, "reason": NOT_YET})
    (V / "MANIFEST.json").write_text(json.dumps(m, indent=1) + "\n")


if __name__ == "__main__":
    main()
