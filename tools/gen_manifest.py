#!/usr/bin/env python3
"""Regenerate MANIFEST.json from the table below (single source of truth for what is claimed)."""
import json
import subprocess
from pathlib import Path

V = Path(__file__).resolve().parent.parent
ALL = [f"C{i:02d}" for i in range(1, 21)]

CLAIMED = {
    "C09": dict(
        technique="TLA+ spec (Ring.tla, MABuffer.tla) model-checked by TLC + conformance: TLC's transition relation replayed into the real buffers and every recorded execution validated by TLC (trace validation)",
        text="Exhaustive TLC check of an implementation-shaped ring/FIFO specification (capacities 1..4, all widths, clear at any point) decides the design; every Add/Clear edge of TLC's reachable graph is executed on the real ReplayBuffer and MultiAgentReplayBuffer for vector/image/dict/tuple observations with sample(B) for all B, and seeded long runs (capacity up to 64) are recorded; TLC validates each recorded execution against the spec with all invariants on. Histories of any length: Apalache shows the invariant of specs/Ring_Ind.tla inductive (symbolic number of added transitions, every capacity up to 4 / 8).",
        note="Trusted: TLC, the id codec/projection in vfw/codec.py + vfw/drive/ring.py (decodes storage[:len] / memory field by field), float32 exactness of ids < 2^17. Widths > capacity are outside the property.",
        design="4/C09"),
    "C10": dict(
        technique="TLA+ spec NStep.tla (permissive AllowedK exactly as the property states; ImplK = implementation rule) model-checked by TLC + TLC trace validation of the real MultiStepReplayBuffer and its companion 1-step buffer",
        text="TLC checks NoCross, ReturnDef, StopsOnlyAtEnd, Aligned and ImplAllowed for every placement of done flags (streams <= 6, n <= 3, <= 2 envs, all permitted cuts). The same grid of done placements plus seeded long streams (n 1..5, 1..4 envs, capacity 4..16, PER companion, index-coupled sampling) is executed on the real buffers; after every add both storages are snapshotted and TLC validates the whole execution against the spec. Discounts 9/10 and 99/100 (rational arithmetic in NStep.tla) and the buffers' dtype option are exercised as well.",
        note="Trusted: TLC, projection in vfw/drive/nstep.py (decodes (t,e) from obs/action, last step from next_obs, scaled return), gamma in {1,1/2,1/4} so float32 returns are exact. Truncation without done is not treated as an episode end.",
        design="4/C10"),
    "C11": dict(
        technique="TLA+ spec PER.tla (implementation-shaped segment trees, exact integer arithmetic) model-checked by TLC + TLC trace validation of the real PrioritizedReplayBuffer (exact mode with stubbed variates; inexact mode with measured facts)",
        text="TLC checks TreeSum, TreeMin, LeavesOK, PtrOK, MaxPOK, NewGetsMax and SampleOK over all interleavings of add/update/sample for capacities 1..5. Exact-mode executions of the real buffer (alpha=1, integer priorities, variates k/8 incl. stratum ends) are validated by TLC leaf by leaf, index by index and weight by weight (as exact fractions); inexact-mode executions (float priorities incl. 0, 1e-9, 1e8, repeated indices, alpha/beta grid, any batch size) are validated on the discrete state plus tolerance-classified facts. Every other batch is drawn through Sampler.sample_per, beta = 0 included.",
        note="Trusted: TLC, float->fraction conversion (limit_denominator 4096), tolerance 1e-9/1e-5 in inexact mode, driver-side stub of torch.rand during sample(). clear() is outside C11's quantifier.",
        design="4/C11"),
    "C12": dict(
        technique="TLA+ specs VecData.tla (N independent scripted environments, per-environment auto-reset) and VecEnv.tla (worker/parent protocol, all interleavings) model-checked by TLC + TLC trace validation of the real AsyncPettingZooVecEnv and PettingZooAutoResetParallelWrapper on scripted PettingZoo environments",
        text="TLC checks OnlyDoneEnvResets / ObsIsCurrent / ResetRestoresAgents on the data model and StepEquivalence / SlotIsolation under every interleaving of worker progress (3 workers, episode lengths 1,2,3). Scripted environments (per-environment episode lengths, termination-only / truncation-only / mixed endings, early leaving agents, vector/image/dict/tuple observations, 4 dtypes, discrete and continuous actions, copy/no-copy) are run stand-alone, inside the real vector env and inside the auto-reset wrapper; TLC validates every returned observation id, reward, flag and info value position by position.",
        note="Trusted: TLC; ScriptedEnv (validated against the spec in mode ref); projection decodes observation ids from returned arrays; values for agents absent from an environment are not compared.",
        design="4/C12"),
    "C13": dict(
        technique="TLA+ spec VecEnv.tla (implementation-shaped async protocol with Raise/Kill faults and blocking conditions) model-checked by TLC for safety, deadlock (= hang) and liveness + TLC-simulated behaviours replayed as fault scripts on the real AsyncPettingZooVecEnv, outcomes validated by TLC (VecEnv_Trace)",
        text="TLC explores every interleaving of client calls (incl. out-of-order use, timeouts, close in 4 blocking phases), worker progress and up to 2 raise/kill faults for 2 workers: MisuseRejected, ErrorTypeOK, TimeoutIsTimeout, CloseNeverRaises, NoWorkerLeft, no deadlock, and NoHang under fairness. Behaviours generated by tlc -simulate plus hand-written fault scripts are executed against the real class (sub-environments that raise / sleep / SIGKILL at a given command, 10 s watchdog); TLC validates each recorded execution, inferring worker progress. Sub-environments stuck far beyond the watchdog with a forced close are part of the hand-written scripts.",
        note="Trusted: TLC; fork-based scenario runner with watchdog (hang = no return within 10 s, injected sleeps 0.5 s, timeouts 0.15 s); BrokenPipe/ConnectionReset abstracted to one class. Exhaustive configs assume the client does not re-issue a wait after EOFError (that history is the recorded known finding F-C13-2).",
        design="4/C13"),
    "C01": dict(
        technique="TLA+ life-cycle spec Evo.tla (relational views, learn/act memo = functional determinism, storage ownership) model-checked by TLC + TLC trace validation of operation scripts executed on real agents of all 11 algorithms",
        text="TLC explores all operation sequences (create/clone/learn/mutate/save/load/discard) up to the bound with ideal constructors and checks NoSharing, Frame, AllCoherent, DistinctIdx, Functional. Scripts that clone at every point of a history (learn steps, the five mutation kinds, earlier clones), train parent and clone with the same batch, train/mutate/discard siblings are executed on real agents of every algorithm x observation family; after every operation each agent is projected (SHA-256 of every weight, target, optimizer state and algorithm-specific tensor; hp; bookkeeping; greedy outputs; data_ptr/id of all mutable storage) and TLC validates CloneOK, Frame, NoSharing and the learn memo on the recorded execution. Tournament rounds of the real TournamentSelection are part of the histories (elite and members are clones).",
        note="Trusted: TLC, projection vfw/project/agent.py (fingerprints <=> content, pointer sets), deterministic learn steps (all RNGs seeded from the batch id, single thread, CPU). PPO/DDPG/TD3 are built with share_encoders=False (sharing cannot be constructed under Python 3.12). DQN's target may be re-synchronised on copy as the property allows.",
        design="4/C01"),
    "C02": dict(
        technique="TLA+ life-cycle spec Evo.tla (MutateOK per mutation kind, Coherent, ShadowArch/ShadowW, label) model-checked by TLC + TLC trace validation of mutation scripts run through the real Mutations class on real agents",
        text="TLC checks that MutateOK in every reachable state preserves AllCoherent/Frame for DQN-like and actor-critic shapes. The real Mutations.mutation() is driven with one-hot kind probabilities (none, architecture, parameters, activation, RL hyperparameter), per agent and per population, pre- and in-training, over generations of clone/mutate/learn; TLC validates per event: optimizer parameter identity, every param-group lr, target architecture and weights, all-or-none architecture change of evaluation networks, mut label, can-act, population size/order, and that the following learn step moves every trained network. SameChange: networks with the same layer configuration before a mutation have the same one afterwards (networks at the layer maximum, layer-only mutations, pre-training learning-rate mutations followed by clones).",
        note="Trusted: as C01. Method/arguments/direction of a mutation are drawn by the real code and observed, only the kind is forced. TD3/MATD3 run with policy_freq=1 here.",
        design="4/C02"),
    "C05": dict(
        technique="TLA+ spec EvoSelect.tla (exact rational mean comparison, permissive ties) model-checked by TLC + TLC trace validation of the real TournamentSelection on populations of real agents with logged random draws",
        text="TLC enumerates every small population (ties, negative and unequal-length histories), window, tournament size, elitism flag, every draw and every permitted winner and checks SizeOK, DistinctIdx, EliteKept, EliteIsBest. The real select() is run for several generations on real agents; np.random.randint is logged, parents are identified by weight fingerprints (twins handled as candidate sets), and TLC validates each generation: elite maximal, size, elite first, each member best of its tournament, fresh distinct indices, faithful copies, old population untouched, no shared storage.",
        note="Trusted: TLC, projection as C01, small integer scores so np.mean order equals exact rational order. Empty fitness histories are outside the quantifier.",
        design="4/C05"),
    "C07": dict(
        technique="TLA+ life-cycle spec Evo.tla (Save/LoadNew/LoadInto with RestoreOK, learn memo) model-checked by TLC + TLC trace validation of save/load scripts on real agents of all algorithms; delayed-policy learners (policy_freq 2, 3) through save / load at every phase of the delay, steps after the load validated by TLC against Track.tla (Track_Trace)",
        text="TLC checks RestoreOK/Functional over all operation sequences with one file. Scripts with histories of learn steps and mutations before the save, the original moving on, load into a new and into an existing agent, and both continuing with the same batches are executed on real agents; TLC validates field by field (hp, mutated architectures, weights of evaluation and target networks, optimizer state, bookkeeping, algorithm-specific tensors, greedy outputs) and that original-at-save-time and restored agent reach the same weights.",
        note="Trusted: as C01. Crash points are modelled as loading an earlier file after the agent moved on (a save is a single torch.save). Agent wrappers (RSNorm) are not yet covered.",
        design="4/C07"),
    "C14": dict(
        technique="TLA+ spec ActionSel.tla (allowed-action sets per mask / exploration / bounds) model-checked by TLC + TLC-dumped grid replayed into the real get_action of every algorithm with stubbed network outputs, each call validated by TLC (ActionSel_Trace)",
        text="TLC enumerates value vectors with ties, all masks with a legal action, exploration on/off, MultiDiscrete/MultiBinary, Box with asymmetric per-dimension bounds, two-agent calls with per-agent masks and environment-defined actions: Legal, GreedyIsBestAllowed, InBounds, BatchShape, Override. Each grid row is replayed into the real agents (DQN, CQN, Rainbow, NeuralUCB/TS, PPO, DDPG, TD3, MADDPG, MATD3, IPPO) with the policy forward stubbed; TLC validates the returned action and shape, action_space.contains is asserted independently. Policies after a clone-and-mutate history and info dictionaries in another key order than agent_ids are included.",
        note="Trusted: TLC, driver-side stubbing of network forwards (selection logic is under test, not the network). Stochastic policies in training mode may leave Box bounds (not flagged).",
        design="4/C14"),
    "C15": dict(
        technique="TLA+ spec ObsPrep.tla (shape-and-content algebra with BatchConsistency, RoundTrip, CriticMap) model-checked by TLC + every TLC-dumped case replayed into the real preprocessing / assembly functions and agents",
        text="TLC enumerates Box ranks 0-4 with extents {1,2,3}, Discrete incl. n=1, MultiDiscrete, MultiBinary, Dict/Tuple, leading shapes incl. batch-of-one and (step, env), with negative-control variants that must be rejected. Each dumped case (expected shape and content) is materialised as numpy/torch/TensorDict/number and passed to the real preprocess_observation, get_vect_dim, maybe_add_batch_dim, assemble/disassemble_homogeneous_outputs, stack_critic_observations and IPPO.learn's batching; the consequence clause is checked on real DQN/PPO/MADDPG/MATD3/IPPO agents. Multi-agent preparation with a first agent whose space has other value attributes; Dict observations with their keys in another order.",
        note="Trusted: TLC, exact float32 arithmetic on the chosen dyadic grid; consequence clause uses tolerance 1e-6 single-threaded.",
        design="4/C15"),
    "C17": dict(
        technique="TLA+ spec GAE.tla (masked backward recursion as the code performs it vs. per-episode-segment definition; row alignment) model-checked by TLC + TLC-dumped rollouts replayed into the real PPO.learn / IPPO.learn through the guarded recorder hook, each call validated by TLC (GAE_Trace)",
        text="TLC checks RecursionMeetsDefinition, NoLeak, ColumnsSeparate, RowsAligned for every placement of done flags (incl. first step, last step, next_done), gamma, lambda in {0,1/2,1}, plus a negative control. 21k dumped rollouts are packed into real learn calls (PPO: 1-4 envs, Box/Discrete, un-vectorised; IPPO: envs x agents sharing a policy, both next_done shapes); the hook exports advantages/returns and the flattened rows; TLC validates every backward step, returns, bit-identical estimates before a boundary under perturbation, and decoded rows. Rollout.tla: the flags handed to learn() by the real train_on_policy / train_multi_agent_on_policy mark exactly the episode ends (termination or truncation) reported by scripted vector environments, next_state follows the last state.",
        note="Trusted: TLC, the guarded hook (agilerl/utils/verif_hooks.py) reports the tensors learn() uses, scaled-integer arithmetic (ScaleExact). Critic next_value is observed and bound.",
        design="4/C17"),
    "C18": dict(
        technique="TLA+ spec C51.tla (exact-integer transcription of the categorical projection incl. fix-up order and flattened index_add offsets) model-checked by TLC + every TLC-dumped case replayed into the real RainbowDQN._dqn_loss/learn with stubbed network outputs, traces validated by TLC (C51_Trace)",
        text="TLC checks MassConserved, MeanConserved, InRange, Neighbours, NonNeg on the whole grid (2-5 atoms, rewards inside/outside/on atoms, done, gamma^n in {0,1/4,1/2,1}). Every case is replayed into the real _dqn_loss; proj_dist from the guarded hook must equal the spec's m exactly, the element-wise loss must equal -sum m ln q; real learn() runs (1-step, n-step, combined, with/without PER, up to 51 atoms) are validated as traces incl. gamma vs gamma^n and priorities.",
        note="Trusted: TLC, dyadic grids so float32 is exact, rigorous float32 bound for the cross-entropy, hook reports the tensors used.",
        design="4/C18"),
    "C06": dict(
        technique="TLA+ spec EvoHP.tla over exact rationals (Rat.tla): own-base, clip, cast, one-change, lr-effective, model-checked by TLC + TLC trace validation of the real Mutations(rl_hp) on real populations built from one shared configuration object",
        text="TLC checks InRange, IntIsInt, LrEffective, OneChange, OwnBase for a float lr and an int batch size at both boundaries over all sequences of <= 5 mutations / copies of two agents. The real rl_hyperparam_mutation is driven per agent and per population, interleaved with learn steps and clones, for every algorithm; exact traces (dyadic factors incl. shrink>1 / grow<1) log every value as a fraction and TLC recomputes clip/cast from the agent's own value; traces with the default factors carry measured facts. Assign: values set from outside between mutations are the base of the next mutation; equal learning rates given as distinct float objects.",
        note="Trusted: TLC, Fraction(float) exactness, mapping of optimizers to their intended learning rate by attribute name. The direction and the hyperparameter are drawn by the real code and observed.",
        design="4/C06"),
    "C16": dict(
        technique="TLA+ spec Dist.tla (exact rational kernel for masked categorical / multi-categorical / Bernoulli / Normal-quadratic-form distributions + history machine EvalIsFunctionOfArgument) model-checked by TLC + TLC-dumped cases replayed into real actors / PPO / IPPO with stubbed head outputs, history traces validated by TLC",
        text="TLC checks MassOne, MaskedZero, ProductOverComponents, Support, BoxQuadratic on the kernel grid and the history invariants (with a negative control that must fail). 6.5k dumped cases are replayed into the real StochasticActor, PPO.get_action / evaluate_actions / learn and IPPO; exp(log_prob) is compared with the spec's rational, entropy with -sum p ln p of the masked pmfs, samples with the support; history traces of real unstubbed networks (with and without tanh squashing) are validated against Dist_Trace. The kernels also run on policies after a clone-and-mutate history through Mutations.architecture_mutate.",
        note="Trusted: TLC, the one transcendental evaluation done by the harness (ln 2, ln 2 pi, tanh correction as the code defines it), tolerance 1e-6 (1e-5 history). The numeric density of squashed policies beyond the code's own definition is a declared gap.",
        design="4/C16, 5"),
    "C19": dict(
        technique="TLA+ spec Bandit.tla (exact rational Sherman-Morrison kernel + carry/re-initialise protocol) model-checked by TLC + TLC trace validation of real NeuralUCB / NeuralTS agents (linear actor: exact; MLP actors: residual class) through decisions, learn, mutations, clones and checkpoint round trips",
        text="TLC checks GramDef, IsInverse, Symmetric, PosDef, BonusNonNeg, DimFollowsLayer, Ownership, InitScale over all sequences of <= 4 decisions with integer contexts and lambda in {1/2,1,2}, and the protocol over 8 actions. Real agents with a linear custom actor take decisions (chosen arm observed, gradient feature recomputed independently); after every operation sigma_inv is compared with the spec's rational matrix by TLC; default / MLP actors are validated on the discrete history plus a residual class.",
        note="Trusted: TLC, 1e-6 fixed-point encoding of sigma_inv (tolerance 1.2e-5), residual tolerance 1e-3 for float features. Re-initialisation on mutation is allowed by the property and accepted.",
        design="4/C19"),
    "C08": dict(
        technique="TLA+ specs Bellman.tla (tabular exact Bellman target / loss for max, double, actor, actor-min learners; DoneMasks) and Track.tla (target-tracking protocol with policy delay over learn / clone / mutate / load) model-checked by TLC + TLC-dumped grid replayed into the real learn() with tabular custom networks, differential done-masking runs, and tracking traces of real agents validated by TLC; RainbowDQN's loss of real learn() calls validated by TLC against C51.tla (C51_Trace)",
        text="TLC checks DoneMasks, TerminalIsReward, Bootstraps, LossDef on the tabular grid (with negative controls that must fail) and TargetTracks / BoundedLag on the protocol. 55k grid cases are replayed into the real DQN / double DQN / CQN / DDPG / TD3 learn() built on table-lookup EvolvableModules (Q(s,a), Y and loss compared exactly), MADDPG/MATD3 joint cases validated as traces, Rainbow and CQN by bit-exact / tolerance differential runs; life-cycle scripts with the real Mutations and checkpoints classify every target tensor as lerp/noop/copy and TLC demands lerp at exactly the protocol's positions. LossOnly: every learn step of the module-based learners equals the step of an exact copy with cleared gradient buffers; no-op mutation rounds are part of the tracking scripts.",
        note="Trusted: TLC, forward hook on the criterion to read Q and Y, tolerance 1e-5 for the lerp classification (tau in {1/2,1/4}), policy_noise=0 in tabular runs. The numeric value of CQN's logsumexp regulariser is not predicted.",
        design="4/C08, 5"),
    "C20": dict(
        technique="TLA+ specs TrainLoop.tla (population counters: steps = env steps along the lineage, budget rule any/sum, one fitness per generation, elite carried) and its refinement TrainLoop_Fine.tla (per-step loop with learn scheduling) model-checked by TLC incl. refinement and negative controls + TLC-enumerated configurations run through the six real train_* functions on counting probe environments, event traces validated by TLC (TrainLoop_Trace)",
        text="TLC checks StepsAreEnvSteps, NoGenerationOnceMet / ReturnOnlyWhenMet (stops in the first generation in which the budget is met), OneFitnessPerGeneration, PopShape, EliteCarried, Inherited and that the fine-grained loop model refines the abstract one; three seeded design defects must be rejected. A stratified subset of 18.7k TLC-enumerated configurations (num_envs vs learn_step, exact / overshot budgets, memories uniform / n-step / PER, tournament + mutation kinds, checkpoints, early stopping) is run through train_off_policy, train_on_policy, train_offline, train_bandits and both multi-agent loops with real agents, buffers, Sampler, TournamentSelection and Mutations on environments that count reset/step; each run's generation / selection / return events are validated by TLC, an exception is a 'compose' violation. Grids include sub-environment counts that do not divide evo_steps and populations with heterogeneous learn_step.",
        note="Trusted: TLC, driver-side class-level wrappers that only log (get_action, learn, test, clone, save_checkpoint), step counting at the vector level, lineage from clone calls, elite identity by fingerprint. For train_offline the step unit is one learn call.",
        design="4/C20"),
    "C03": dict(
        technique="TLA+ spec Arch.tla (implementation-shaped successor sets for every @mutation method of MLP, CNN 2d/3d, LSTM, SimBa, ResNet, MultiInput and networks, with guards / fallbacks; Shapes of every parameter tensor) model-checked by TLC + TLC's dumped transition relation executed edge by edge on the real modules and long seeded walks on real networks, every step validated by TLC (Arch_Trace)",
        text="TLC checks WellFormed, InBounds, StaysInBounds, FeatureMapPositive, MethodsAdvertised, Advertised (guard true => advertised delta, else documented fallback or no change), ShapesTotal for 14 small-bound instances (Direct / Fallback / Stopped step classes must all occur). Every edge of the dumped relations is executed on the real module (explicit arguments or scripted numpy draws), alternately on a fresh clone and in place; seeded walks with default bounds cover all blocks and Q / Rainbow / continuous-Q / value / deterministic / stochastic networks over vector, image, sequence, dict and tuple observations. Per step TLC checks: successor allowed, last_mutation_attr, bounds, feature maps, real shapes = Shapes(post), strict rebuild from init_dict, finite forward of declared shape for batch sizes 1-3.",
        note="Trusted: TLC, scripting of numpy draws inside the driver, square images, eval-mode forward on seeded probe batches (3 per state).",
        design="4/C03"),
    "C04": dict(
        technique="TLA+ spec Arch.tla (Shapes / Common index ranges: expected provenance of every tensor element across a mutation) model-checked by TLC + the same relation walk on real modules with position-coded weights, provenance decoded and validated by TLC (Arch_Trace); TLA+ spec CloneChain.tla (several live objects: CloneSame, NoopSame, Local, Described) model-checked by TLC + seeded clone / mutate / drop chains on real modules incl. MakeEvolvable with every live object re-measured after every step, validated by TLC (CloneChain_Trace)",
        text="TLC checks ShapesTotal and SurvivorsOverlap (every surviving tensor keeps a non-empty common index range) on all instances. Before every real mutation each parameter element is overwritten with a unique exact code; afterwards the codes are decoded and TLC checks that exactly the cells in the component-wise minimum of old and new shape kept their value (CNN shrink rule on the first two dimensions), that a mutation leaving the architecture unchanged gives bit-equal outputs, and that clone() gives bit-equal outputs on probe batches. Chain stage: parent, clones and siblings live side by side; after every clone / mutation / drop TLC checks on the measured structure and outputs of ALL live objects and of a fresh clone of each that only the mutated object changed, unchanged architectures compute the same, and clones reproduce their originals (negative control: shared description).",
        note="Trusted: TLC, float32-exact codes (channel sizes capped at 64 in walks), eval-mode comparisons.",
        design="4/C04"),
}
NOT_YET = "check not built yet in this round (planned, see DESIGN.md section 4)"


def main():
    commits = subprocess.run(["git", "-C", "/repo", "log", "--format=%h %s", "6e0befc..HEAD"],
                             capture_output=True, text=True).stdout.strip().splitlines()
    hooks = [c.split()[0] for c in commits if c.split(" ", 1)[1].startswith("verif-hook")]
    m = {
        "version": 1,
        "setup_cmd": "cd /verif && ./setup.sh",
        "hooks": {
            "guard": "AGILERL_VERIF",
            "enable": "environment variable AGILERL_VERIF=1 (set by ./check); the package is an editable install, nothing is rebuilt",
            "baseline_off_cmd": "cd /repo && env -u AGILERL_VERIF /venv/bin/python -m pytest -ra -q -p no:cacheprovider --timeout=900 --continue-on-collection-errors",
            "source_commits": hooks,
            "add_only": True,
        },
        "engines": [
            {"name": "tlc", "path": "/opt/veriftools/tla/tla2tools.jar", "serves_properties": sorted(CLAIMED),
             "kind_free_text": "explicit-state model checker for the TLA+ specifications in /verif/specs (exhaustive MC, relation dumps, trace validation, simulation)"},
            {"name": "vfw", "path": "/verif/vfw", "serves_properties": sorted(CLAIMED),
             "kind_free_text": "Python conformance harness: drives the real AgileRL objects along TLC-generated behaviours, records projected traces, feeds them back to TLC"},
            {"name": "apalache", "path": "/usr/local/bin/apalache-mc", "serves_properties": ["C09"],
             "kind_free_text": "symbolic model checker: inductive invariant of specs/Ring_Ind.tla (ring buffer, histories of any length); skipped with a note in the evidence when the tool is absent"},
        ],
        "checks": [],
        "not_applicable": [],
        "notes": ("All checks: ./check <id> --tier quick|thorough. Exit 0 held / 1 VIOLATION / 2 machinery failure. known_findings.json lists genuine "
                  "defects (fixed or recorded). Beyond the listed properties the specification has grown by ./check X01 (RSNorm / RunningMeanStd "
                  "state machine, specs/RSNorm*.tla), ./check X02 (mutation-method registry and MutationContext, specs/MutReg*.tla) and ./check X03 "
                  "(BanditEnv dataset environment and Skill wrapper, specs/BanditEnv*.tla); their "
                  "evidence is written to evidence/extras/ and they are described in DESIGN.md section 15. seeded/ holds the independently seeded "
                  "changes used to validate the checks (DESIGN.md section 14)."),
    }
    for pid in ALL:
        if pid in CLAIMED:
            c = CLAIMED[pid]
            m["checks"].append({
                "property_id": pid,
                "quick_cmd": f"./check {pid} --tier quick",
                "thorough_cmd": f"./check {pid} --tier thorough",
                "evidence_file": f"/verif/evidence/{pid}.json",
                "replay_cmd_template": f"./check {pid} --replay {{path}}",
                "engine": "tlc",
                "level_claimed": {"category": "model_checking", "text": c["text"], "design_ref": c["design"]},
                "level_note": c["note"],
                "technique": c["technique"],
            })
        else:
            m["not_applicable"].append({"property_id": pid, "reason": NOT_YET})
    (V / "MANIFEST.json").write_text(json.dumps(m, indent=1) + "\n")


if __name__ == "__main__":
    main()
