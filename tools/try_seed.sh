#!/bin/sh
# tools/try_seed.sh <dir with patch.diff + demo.py> <property id> [tier]
# Applies the seeded change in a scratch worktree, runs the demo on both trees and the property's check on the
# changed tree. Prints a one-line summary. Removes the worktree afterwards.
D="$1"; PID="$2"; TIER="${3:-quick}"; TESTS="$4"
WT="/tmp/try-seed-$$"
git -C /repo worktree add -q --detach "$WT" HEAD || exit 2
if ! git -C "$WT" apply "$D/patch.diff"; then echo "PATCH DOES NOT APPLY"; git -C /repo worktree remove --force "$WT"; exit 2; fi
( cd "$D" && env -u AGILERL_VERIF PYTHONPATH="$WT" timeout 600 /venv/bin/python demo.py >/tmp/try-seed-demo-changed.$$ 2>&1 ); RC_CH=$?
( cd "$D" && env -u AGILERL_VERIF PYTHONPATH=/repo timeout 600 /venv/bin/python demo.py >/tmp/try-seed-demo-orig.$$ 2>&1 ); RC_OR=$?
cd /verif && VERIF_EVIDENCE_DIR="/tmp/try-seed-evid-$$" VERIF_REPO="$WT" ./check "$PID" --tier "$TIER" > /tmp/try-seed-check.$$ 2>&1; RC_CK=$?
TST="-"
if [ -n "$TESTS" ]; then TST=$(BASELINE_REPO="$WT" python3 /verif/tools/run_baseline.py --stable-only $TESTS 2>&1 | tail -1 | tr ' ' '_'); fi
echo "seed=$D property=$PID demo(changed)=$RC_CH demo(orig)=$RC_OR check=$RC_CK tests=$TST"
grep "signature:" /tmp/try-seed-check.$$ | sort | uniq -c | head -8
grep "MACHINERY" /tmp/try-seed-check.$$ | head -3
git -C /repo worktree remove --force "$WT"
rm -rf /tmp/try-seed-evid-$$; rm -f /tmp/try-seed-demo-changed.$$ /tmp/try-seed-demo-orig.$$ /tmp/try-seed-check.$$
