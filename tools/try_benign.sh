#!/bin/sh
# tools/try_benign.sh <dir with patch.diff> <check ids...>: behaviour-preserving change -> every listed check must still exit 0
D="$1"; shift
WT="/tmp/try-benign-$$"
git -C /repo worktree add -q --detach "$WT" HEAD || exit 2
if ! git -C "$WT" apply "$D/patch.diff"; then echo "PATCH DOES NOT APPLY: $D"; git -C /repo worktree remove --force "$WT"; exit 2; fi
for P in "$@"; do
  cd /verif && VERIF_EVIDENCE_DIR="/tmp/try-benign-evid-$$" VERIF_REPO="$WT" ./check "$P" --tier quick > /tmp/try-benign-check.$$ 2>&1; RC=$?
  echo "benign=$D check=$P exit=$RC"
  if [ $RC -ne 0 ]; then grep "signature:\|MACHINERY\|Error\|error" /tmp/try-benign-check.$$ | sort | uniq -c | head -8; fi
done
git -C /repo worktree remove --force "$WT"
rm -rf /tmp/try-benign-evid-$$ /tmp/try-benign-check.$$
