#!/usr/bin/env python3
"""Run the repository's pinned baseline (guard OFF) and compare with BASELINE.json stable_pass.
usage: run_baseline.py [pytest args...]   (default: whole suite)"""
import json, os, subprocess, sys, tempfile, xml.etree.ElementTree as ET
b = json.load(open('/root/.vp/BASELINE.json'))
stable = set(b['stable_pass'])
out = tempfile.mktemp(suffix='.xml')
env = dict(os.environ); env.pop('AGILERL_VERIF', None)
args = sys.argv[1:]
cmd = ['/venv/bin/python', '-m', 'pytest', '-q', '-p', 'no:cacheprovider', '--timeout=900', '--continue-on-collection-errors', f'--junitxml={out}'] + args
subprocess.run(cmd, cwd='/repo', env=env, stdout=subprocess.DEVNULL, stderr=subprocess.DEVNULL)
passed = set(); seen = set()
for tc in ET.parse(out).getroot().iter('testcase'):
    name = f"{tc.get('classname')}::{tc.get('name')}"
    seen.add(name)
    if not any(ch.tag in ('failure', 'error', 'skipped') for ch in tc):
        passed.add(name)
os.unlink(out)
scope = stable if not args else {s for s in stable if s in seen}
missing = sorted(scope - passed)
print(f"stable in scope: {len(scope)}  passed: {len(scope & passed)}  missing: {len(missing)}")
for m in missing[:40]:
    print("  MISSING", m)
sys.exit(1 if missing else 0)
