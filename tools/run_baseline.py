#!/usr/bin/env python3
"""Run the repository's pinned baseline (guard OFF) and compare with BASELINE.json stable_pass.

usage: run_baseline.py [--stable-only] [path prefixes...]
  default       run pytest on the given paths (whole suite if none) and report stable tests that no longer pass
  --stable-only run exactly the stable tests (optionally restricted to the given path prefixes); the always-fail
                part of the suite contains tests that hang until their 900 s timeout, this mode avoids them
"""
import json
import os
import subprocess
import sys
import tempfile
import xml.etree.ElementTree as ET

b = json.load(open('/root/.vp/BASELINE.json'))
stable = set(b['stable_pass'])
env = dict(os.environ)
env.pop('AGILERL_VERIF', None)
args = sys.argv[1:]
stable_only = "--stable-only" in args
if stable_only:
    args.remove("--stable-only")


def node_id(s):
    mod, name = s.split("::", 1)
    parts = mod.split(".")
    cls = []
    while parts and parts[-1][:1].isupper():
        cls.insert(0, parts.pop())
    return "/".join(parts) + ".py::" + "::".join(cls + [name])


def run(pytest_args, preload=False):
    out = tempfile.mktemp(suffix='.xml')
    launcher = (['-c', 'import agilerl.algorithms, sys, pytest; sys.exit(pytest.main(sys.argv[1:]))'] if preload else ['-m', 'pytest'])
    cmd = ['/venv/bin/python'] + launcher + ['-q', '-p', 'no:cacheprovider', '--timeout=900',
           '--continue-on-collection-errors', f'--junitxml={out}'] + pytest_args
    repo = os.environ.get("BASELINE_REPO", "/repo")
    e2 = dict(env)
    if repo != "/repo":
        e2["PYTHONPATH"] = repo + os.pathsep + e2.get("PYTHONPATH", "")
    r = subprocess.run(cmd, cwd=repo, env=e2, capture_output=True, text=True)
    if not os.path.exists(out):
        print(r.stdout[-2000:], r.stderr[-2000:])
        sys.exit(2)
    passed, seen = set(), set()
    for tc in ET.parse(out).getroot().iter('testcase'):
        name = f"{tc.get('classname')}::{tc.get('name')}"
        seen.add(name)
        if not any(ch.tag in ('failure', 'error', 'skipped') for ch in tc):
            passed.add(name)
    os.unlink(out)
    return passed, seen


if stable_only:
    scope = {s for s in stable if not args or any(node_id(s).startswith(a) for a in args)}
    by_file = {}
    for s in scope:
        by_file.setdefault(node_id(s).split("::")[0], []).append(node_id(s))
    passed = set()
    for f, ids in sorted(by_file.items()):
        p, _ = run(sorted(ids))
        passed |= p
        want = {s for s in scope if node_id(s).split("::")[0] == f}
        if want - passed:
            # some tests of the pinned suite only pass in the order / import state of the whole-suite session (a test that
            # needs an earlier test of its file, a module with an import cycle that an earlier test module resolves):
            # run the whole file once more, with the package imported the way the whole-suite session has it by then
            p2, _ = run([f], preload=True)
            passed |= p2
else:
    passed, seen = run(args)
    scope = stable if not args else {s for s in stable if s in seen}
missing = sorted(scope - passed)
print(f"stable in scope: {len(scope)}  passed: {len(scope & passed)}  missing: {len(missing)}")
for m in missing[:60]:
    print("  MISSING", m)
sys.exit(1 if missing else 0)
