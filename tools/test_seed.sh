#!/bin/sh
# tools/test_seed.sh <dir with patch.diff> <test paths...>: stable baseline tests on a worktree with the patch applied
D="$1"; shift
WT="/tmp/test-seed-$$"
git -C /repo worktree add -q --detach "$WT" HEAD || exit 2
git -C "$WT" apply "$D/patch.diff" || { echo "PATCH DOES NOT APPLY"; git -C /repo worktree remove --force "$WT"; exit 2; }
R=$(BASELINE_REPO="$WT" python3 /verif/tools/run_baseline.py --stable-only "$@" 2>&1 | tail -3 | tr '\n' ' ')
echo "seed=$D tests: $R"
git -C /repo worktree remove --force "$WT"
